#!/bin/bash
# usage: seedpar.sh <worktree> <check id> [more check ids]  -- like seedverify.sh + seedrun.sh, but on a scratch copy of /repo and of /verif
# under /tmp (so that several seeded changes can be tried at once and /repo stays untouched).  Prints VERIFY lines and, per check, the exit
# status and the first VIOLATION lines.  The scratch copy is removed afterwards.  (Final confirmation of kept seeds: tools/seedall.sh on /repo.)
wt=$1; shift
name=$(basename $wt)
sc=/tmp/sp-$name
here="$(cd "$(dirname "$0")/.." && pwd)"
if [ ! -f $wt/VERIFY.txt ] || ! grep -q DEMO_WITHOUT_CHANGE $wt/VERIFY.txt; then bash $here/tools/seedverify.sh $wt; fi
echo "== $name verify:"; cat $wt/VERIFY.txt
rm -rf $sc; mkdir -p $sc/repo $sc/verif
rsync -a --exclude target --exclude .git /repo/ $sc/repo/
( cd $sc/repo && git init -q . 2>/dev/null; patch -p1 -s < $wt/mutation.diff ) || { echo "PATCH FAILED"; exit 2; }
# (the committed state of /verif, so that edits under way do not leak into a run; SEEDPAR_WORKTREE=1 takes the working tree instead)
if [ -n "$SEEDPAR_WORKTREE" ]; then rsync -a --exclude work --exclude 'work-*' --exclude .git --exclude replays --exclude 'harness/target*' $here/ $sc/verif/
else git -C $here archive HEAD | tar -x -C $sc/verif; fi
sed -i "s|path = \"/repo\"|path = \"$sc/repo\"|" $sc/verif/harness/Cargo.toml
cd $sc/verif
for c in "$@"; do
  t0=$(date +%s)
  timeout 2400 ./check $c --tier quick > $sc/$c.log 2>&1
  rc=$?
  echo "== $name -> $c exit=$rc ($(( $(date +%s) - t0 ))s) $(grep -c '^VIOLATION' $sc/$c.log) violation lines"
  grep -E "^VIOLATION|^KNOWN|tool error" $sc/$c.log | cut -c1-220 | head -4
  cp $sc/$c.log $here/work/seedpar-$name-$c.log
done
rm -rf $sc
