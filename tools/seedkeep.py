#!/usr/bin/env python3
"""usage: seedkeep.py <worktree> <seed id, e.g. C07-3> [result text] [clauses]  -- keeps a confirmed seeded change under seeded/<id>/"""
import json, os, shutil, sys
wt, sid = sys.argv[1], sys.argv[2]
result = sys.argv[3] if len(sys.argv) > 3 else "not run yet"
clauses = sys.argv[4] if len(sys.argv) > 4 else ""
here = os.path.dirname(os.path.abspath(__file__))
dst = os.path.join(here, "..", "seeded", sid)
os.makedirs(dst, exist_ok=True)
if os.path.isdir(wt):
    raw = [l.strip() for l in open(os.path.join(wt, "VERIFY.txt")) if l.strip()]
    assert any(l.startswith("BASELINE_WITH_CHANGE 70/70") for l in raw), raw
    assert "DEMO_WITH_CHANGE rc=101" in raw and "DEMO_WITHOUT_CHANGE rc=0" in raw, raw
    shutil.copy(os.path.join(wt, "mutation.diff"), os.path.join(dst, "patch.diff"))
    shutil.copy(os.path.join(wt, "tests", "seeded_demo.rs"), os.path.join(dst, "seeded_demo.rs"))
    shutil.copy(os.path.join(wt, "NOTES.md"), os.path.join(dst, "NOTES.md"))
    meta = {"property": sid.split("-")[0],
            "origin": "independent sub-agent (round %s) given only the property text, a scratch worktree and one-line descriptions of the earlier changes to avoid" % sid.split("-")[1],
            "needs_to_manifest": open(os.path.join(wt, "NOTES.md")).read().splitlines()[:12],
            "confirmed": {"baseline_with_change": "70/70 stable tests pass (tools/seedverify.sh)", "demo_with_change": "fails", "demo_without_change": "passes", "raw": raw},
            "check_run": "tools/seedrun.sh <patch> %s" % sid.split("-")[0]}
else:
    meta = json.load(open(os.path.join(dst, "meta.json")))
meta["result"] = result
meta["violated_clauses"] = clauses
json.dump(meta, open(os.path.join(dst, "meta.json"), "w"), indent=1)
print("kept", dst)
