#!/bin/bash
# usage: seedrun.sh <patch> <check id> [more check ids]   -- applies a seeded change to /repo, runs the quick checks, undoes it
patch=$1; shift
cd /verif
git -C /repo apply $patch || { echo "APPLY FAILED $patch"; exit 2; }
for c in "$@"; do
  echo "=== $(basename $patch) -> $c"
  rm -rf /verif/replays
  timeout 1500 ./check $c --tier quick > /verif/work/seedrun-$c.log 2>&1
  echo "exit=$?"
  grep -E "^VIOLATION|^KNOWN" /verif/work/seedrun-$c.log | cut -c1-200 | head -5
done
git -C /repo checkout -- .
git -C /repo status --short | head -3
