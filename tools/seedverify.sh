#!/bin/bash
# usage: seedverify.sh <worktree>   -- confirms a seeded change from its mutation.diff: baseline still passes with it, the demonstration
# fails with it and passes without it.  Never uses git stash (shared between worktrees).
wt=$1
cd $wt || exit 2
out=$wt/VERIFY.txt
: > $out
[ -f mutation.diff ] || { echo "NO mutation.diff" >> $out; exit 2; }
git checkout -q -- src
git apply mutation.diff || { echo "PATCH DOES NOT APPLY" >> $out; exit 2; }
python3 - "$wt" >> $out 2>&1 <<'PY'
import json, re, subprocess, sys
wt = sys.argv[1]
base = json.load(open('/root/.vp/BASELINE.json'))
want = set(base['stable_pass'])
p = subprocess.run(['cargo', 'test', '--offline', '--no-fail-fast'], cwd=wt, stdout=subprocess.PIPE, stderr=subprocess.STDOUT, text=True)
passed = set(); cur = None
for ln in p.stdout.splitlines():
    m = re.match(r'\s+Running (?:unittests )?(\S+)', ln)
    if m:
        f = m.group(1); cur = 'lib' if f.startswith('src/') else re.sub(r'^tests/|\.rs$', '', f)
    m = re.match(r'test (\S+)(?: - should panic)? \.\.\. ok', ln)
    if m:
        name = m.group(1); passed.add('fatfs::' + (name if cur == 'lib' else '%s::%s' % (cur, name)))
missing = sorted(want - passed)
print('BASELINE_WITH_CHANGE %d/%d missing=%s' % (len(want & passed), len(want), missing))
PY
cargo test --offline --test seeded_demo > $out.demo1 2>&1; echo "DEMO_WITH_CHANGE rc=$?" >> $out
git checkout -q -- src
cargo test --offline --test seeded_demo > $out.demo2 2>&1; echo "DEMO_WITHOUT_CHANGE rc=$?" >> $out
git apply mutation.diff
cp mutation.diff /tmp/$(basename $wt).patch
