#!/bin/bash
# usage: allchecks.sh <tier> [ids...]   (VERIF_SEED from the environment) -- runs checks sequentially, prints one line per check
tier=$1; shift
ids="$@"
[ -z "$ids" ] && ids="C01 C02 C03 C04 C05 C06 C07 C08 C09 C10 C11 C12 C13 C14 C15 C16 C17 C18 C19 C20"
cd "$(dirname "$0")/.."
for c in $ids; do
  s=$(date +%s)
  ./check $c --tier $tier > work-$c.log 2>&1
  rc=$?
  e=$(date +%s)
  echo "$c seed=${VERIF_SEED:-1} tier=$tier exit=$rc wall=$((e-s))s $(grep -c '^VIOLATION' work-$c.log) violations"
  grep -E '^VIOLATION|tool error' work-$c.log | head -3
done
