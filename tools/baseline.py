#!/usr/bin/env python3
"""Runs the repository's own test suite with the verification guard OFF and compares with the
70 stable tests of /root/.vp/BASELINE.json.  Exit 0 iff all of them pass."""
import json, re, subprocess, sys
base = json.load(open('/root/.vp/BASELINE.json'))
want = set(base['stable_pass'])
p = subprocess.run(['cargo', 'test', '--workspace', '--no-fail-fast', '--offline'], cwd='/repo', stdout=subprocess.PIPE, stderr=subprocess.STDOUT, text=True)
passed = set()
cur = None
for ln in p.stdout.splitlines():
    m = re.match(r'\s+Running (?:unittests )?(\S+)', ln)
    if m:
        f = m.group(1)
        cur = 'lib' if f.startswith('src/') else re.sub(r'^tests/|\.rs$', '', f)
    m = re.match(r'test (\S+) \.\.\. ok', ln)
    if m:
        name = m.group(1)
        passed.add('fatfs::' + (name if cur == 'lib' else '%s::%s' % (cur, name)))
    m = re.match(r'test (\S+) - should panic \.\.\. ok', ln)
    if m:
        passed.add('fatfs::' + m.group(1))
missing = sorted(want - passed)
print('baseline: %d/%d stable tests pass' % (len(want & passed), len(want)))
for m in missing:
    print('  MISSING', m)
sys.exit(0 if not missing else 1)
