#!/usr/bin/env python3
"""Mechanical mutation sweep (diagnostic, not a registered check).

usage: mutsweep.py gen <n> <seed> <out.json>         -- sample n single-token mutants of /repo/src (outside the unit-test modules)
       mutsweep.py lane <lane dir> <mutants.json> <k> <m> <results.ndjson>
                                                      -- lane k of m: for each of its mutants apply it to the lane's copy of the library,
                                                         build, run the quick checks in a priority order until one reports a violation

A lane directory holds `repo` (git worktree of /repo) and `verif` (copy of /verif whose harness points at that repo); everything lives
outside /repo and /verif and is removed by the caller.  Survivors are then judged by hand (equivalent mutant / outside every property /
gap of the generators)."""
import json, os, random, re, subprocess, sys, time

FILES = ["table.rs", "file.rs", "dir.rs", "fs.rs", "boot_sector.rs", "dir_entry.rs", "time.rs", "io.rs"]
SWAPS = [(" < ", " <= "), (" <= ", " < "), (" > ", " >= "), (" >= ", " > "), (" == ", " != "), (" != ", " == "), (" && ", " || "), (" || ", " && "),
         (" + 1", ""), (" - 1", ""), (" + 1", " + 2"), (" - 1", " - 2"), ("true", "false"), ("false", "true"), (" + ", " - "), (" - ", " + "),
         (" * ", " / "), ("checked_add", "checked_sub"), (".min(", ".max("), (".max(", ".min("), ("is_some()", "is_none()"), ("is_none()", "is_some()"),
         ("Some(", "None::<u32>.or(Some("), ("!", "")]
ORDER = {"table.rs": "C03 C05 C10 C02 C04 C08 C11 C20 C01 C12 C06 C07 C09 C13 C14 C15 C16 C17 C18 C19",
         "file.rs": "C02 C04 C03 C01 C05 C14 C18 C12 C08 C11 C20 C09 C10 C13 C15 C16 C17 C19 C06 C07",
         "dir.rs": "C01 C03 C15 C16 C04 C17 C05 C08 C18 C14 C19 C02 C11 C12 C09 C10 C13 C20 C06 C07",
         "fs.rs": "C01 C05 C12 C06 C10 C13 C03 C04 C11 C08 C02 C14 C07 C09 C20 C15 C16 C17 C18 C19",
         "boot_sector.rs": "C06 C07 C04 C01 C08 C12 C03 C05 C10 C11 C20 C02 C09 C13 C14 C15 C16 C17 C18 C19",
         "dir_entry.rs": "C01 C15 C18 C04 C03 C16 C17 C08 C02 C19 C05 C14 C11 C12 C20 C09 C10 C13 C06 C07",
         "time.rs": "C18 C17 C04 C08 C01 C03 C02 C05 C06 C07 C09 C10 C11 C12 C13 C14 C15 C16 C19 C20",
         "io.rs": "C02 C14 C09 C01 C03 C04 C05 C06 C07 C08 C10 C11 C12 C13 C15 C16 C17 C18 C19 C20"}


def candidates():
    out = []
    for fn in FILES:
        lines = open("/repo/src/" + fn).read().split("\n")
        end = len(lines)
        for i, ln in enumerate(lines):
            if re.match(r"\s*mod tests\b", ln) or ln.strip() == "#[cfg(test)]":
                end = i
                break
        for i in range(end):
            ln = lines[i]
            st = ln.strip()
            if not st or st.startswith(("//", "#[", "use ", "pub use", "trace!", "debug!", "warn!", "error!", "info!", "///", "assert", "debug_assert")):
                continue
            if "!(" in st and re.search(r"\b(trace|debug|warn|error|info|panic|write|format|assert\w*)!\(", st):
                continue
            code = ln.split("//")[0]
            for a, b in SWAPS:
                for m in re.finditer(re.escape(a), code):
                    if a == "!" and not re.match(r"!\w|!\(", code[m.start():m.start() + 2]):
                        continue
                    if a in ("true", "false") and not re.search(r"\b%s\b" % a, code[max(0, m.start() - 1):m.end() + 1]):
                        continue
                    out.append({"file": fn, "line": i + 1, "col": m.start(), "a": a, "b": b, "text": st[:120]})
            for m in re.finditer(r"\b(0x[0-9A-Fa-f_]+|\d+)(_?u\d+|_?i\d+|_?usize)?\b", code):
                tok = m.group(1)
                try:
                    v = int(tok.replace("_", ""), 0)
                except ValueError:
                    continue
                if v > 1 and "<" not in code[max(0, m.start() - 1):m.start()]:
                    for d in (-1, 1):
                        nv = v + d
                        out.append({"file": fn, "line": i + 1, "col": m.start(), "a": tok, "b": hex(nv) if tok.startswith("0x") else str(nv), "text": st[:120]})
    return out


def apply(repo, mu):
    p = os.path.join(repo, "src", mu["file"])
    lines = open(p).read().split("\n")
    ln = lines[mu["line"] - 1]
    assert ln[mu["col"]:mu["col"] + len(mu["a"])] == mu["a"], (mu, ln)
    lines[mu["line"] - 1] = ln[:mu["col"]] + mu["b"] + ln[mu["col"] + len(mu["a"]):]
    open(p, "w").write("\n".join(lines))


def main():
    if sys.argv[1] == "gen":
        n, seed, out = int(sys.argv[2]), int(sys.argv[3]), sys.argv[4]
        c = candidates()
        rng = random.Random(seed)
        rng.shuffle(c)
        # at most two mutants per source line, spread over the files
        quota = {"table.rs": 0.17, "file.rs": 0.17, "dir.rs": 0.23, "fs.rs": 0.17, "boot_sector.rs": 0.12, "dir_entry.rs": 0.10, "time.rs": 0.02, "io.rs": 0.02}
        seen, pick, per = {}, [], {}
        for mu in c:
            k = (mu["file"], mu["line"])
            if seen.get(k, 0) >= 1 or per.get(mu["file"], 0) >= quota[mu["file"]] * n:
                continue
            seen[k] = seen.get(k, 0) + 1
            per[mu["file"]] = per.get(mu["file"], 0) + 1
            pick.append(mu)
        for i, mu in enumerate(pick):
            mu["id"] = "m%03d" % i
        json.dump(pick, open(out, "w"), indent=0)
        print(len(c), "candidate sites;", len(pick), "sampled")
        return
    lane, mfile, k, m, res = sys.argv[2], sys.argv[3], int(sys.argv[4]), int(sys.argv[5]), sys.argv[6]
    repo, verif = os.path.join(lane, "repo"), os.path.join(lane, "verif")
    mutants = [mu for i, mu in enumerate(json.load(open(mfile))) if i % m == k]
    env = dict(os.environ, CARGO_NET_OFFLINE="true", VERIF_SEED="1")
    for mu in mutants:
        subprocess.run(["git", "-C", repo, "checkout", "-q", "--", "."], check=True)
        t0 = time.time()
        rec = dict(mu)
        try:
            apply(repo, mu)
        except AssertionError:
            rec["result"] = "stale"
            open(res, "a").write(json.dumps(rec) + "\n")
            continue
        b = subprocess.run(["cargo", "build", "--offline", "-q"], cwd=repo, env=env, stdout=subprocess.PIPE, stderr=subprocess.STDOUT, text=True)
        if b.returncode != 0:
            rec["result"] = "does-not-compile"
            open(res, "a").write(json.dumps(rec) + "\n")
            continue
        rec["result"] = "survived"
        rec["ran"] = []
        for c in ORDER[mu["file"]].split():
            p = subprocess.run(["./check", c, "--tier", "quick"], cwd=verif, env=env, stdout=subprocess.PIPE, stderr=subprocess.STDOUT, text=True)
            rec["ran"].append([c, p.returncode])
            if p.returncode == 1 and re.search(r"^VIOLATION property=%s " % c, p.stdout, re.M):
                rec["result"] = "killed"
                rec["by"] = c
                m1 = re.search(r"^VIOLATION property=\S+ replay=\S+\s+\((\S+)", p.stdout, re.M)
                rec["clause"] = m1.group(1) if m1 else ""
                break
            if p.returncode == 2:
                rec.setdefault("tool_errors", []).append(c)
        rec["wall"] = round(time.time() - t0)
        open(res, "a").write(json.dumps(rec) + "\n")
    subprocess.run(["git", "-C", repo, "checkout", "-q", "--", "."], check=True)


if __name__ == "__main__":
    main()
