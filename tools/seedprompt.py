#!/usr/bin/env python3
"""usage: seedprompt.py <property id> <worktree>   -- prints the brief given to an independent sub-agent that is asked for a seeded
change (it receives the property text and a scratch worktree, nothing from /verif).  PREV lists what earlier rounds changed, so that a
new round explores other code."""
import json, os, sys
PREV = {
"C01": ["the '..' entry written by create_dir for directories created in a FAT32 root", "the deleted-slot run counter in Dir::find_free_entries", "the order of compare/ascend in Dir::is_inside", "DiskSlice::seek rejecting the end position (full fixed root directory)"],
"C02": ["the starting cluster of the chain walk in File::seek", "the cached current cluster in File::read at a cluster boundary", "File::write advancing the cursor by the requested instead of the transferred byte count", "File::truncate keeping the freed first cluster in the entry"],
"C03": ["the '..' entry written by rename when a directory is moved into a FAT32 root", "the cluster of a new directory not being freed when its parent directory is full", "the >= / > length check in LongNameBuilder::into_buf (255-unit names)", "the stay-in-cluster shortcut of File::seek (directory streams)"],
"C04": ["File::truncate at offset 0 not resetting the handle's cached first cluster", "the dirty flag assignment in the DirEntryEditor time setters", "the >= / > length check in LongNameBuilder::into_buf (255-unit names)", "the FAT12/FAT16 threshold constant in FatType"],
"C05": ["FSInfo not being marked dirty when clusters are only freed", "the missing 28-bit mask in Fat32::count_free", "the capacity check of the fixed root in Dir::find_free_entries", "DirFileEntryData::set_first_cluster(None) leaving the high word (free count after remove)"],
"C06": ["rounding in determine_sectors_per_fat", "the zero-fill length of the FAT region in format_volume", "the root-directory size hoisted out of the FAT-type loop in determine_fs_layout", "32-bit multiplication in determine_bytes_per_cluster (forced FAT12 above 4 TiB)"],
"C07": ["the FAT12/FAT16 cluster-count boundary in FatType::from_clusters", "the 64-bit sum in BiosParameterBlock::validate_total_sectors", "16-bit arithmetic in BiosParameterBlock::root_dir_sectors", "BiosParameterBlock::validate_total_clusters accepting a FAT32 layout with few clusters"],
"C08": ["DirIter offset_range covering skipped slots before an entry", "FatType::from_clusters thresholds (exactly 4084 / 65524 clusters)", "DirFileEntryData::set_first_cluster(None) leaving the high 16 bits", "active_fat()/fat_slice() with a non-zero active-copy nibble while mirroring"],
"C09": ["File::seek treating a failed FAT read as end of chain", "Dir::is_empty swallowing an iterator error", "Dir::is_inside mapping a storage error to CorruptedFileSystem", "DiskSlice::write reporting only the last copy's outcome"],
"C10": ["the end bound of Fat32::find_free", "the number of mirrors derived in fat_slice()", "Fat32::set zeroing the reserved bits when a cluster is freed", "format_volume zero-filling only the first table copy"],
"C11": ["the end bound of Fat12::find_free", "fat_slice()/active_fat() with a stale active-copy nibble", "the entry position recorded in DirIter::read_dir_entry / File::abs_pos", "DirFileEntryData::first_cluster using the word at offset 20 on FAT12/16"],
"C12": ["ClusterIterator::truncate skipping the FAT write when nothing is freed", "the set_dirty_flag call at the start of File::write", "the bit mask used in FileSystem::set_dirty_flag", "FileSystem::new seeding the cached status from table entry 1"],
"C13": ["FileSystem::new marking FSInfo dirty on a dirty-at-mount volume", "the early return of FileSystem::set_dirty_flag", "FileSystem::stats recounting when table entry 1 says not cleanly shut down", "FsOptions::strict copying the wrong field (access-date updating switched on)"],
"C14": ["File::flush skipping the storage flush when the directory entry is clean", "DirEntryEditor::flush clearing the dirty mark before the write", "DirEntryEditor::clone clearing the dirty mark (File::clone)", "StdIoWrapper::flush swallowing an interrupted flush"],
"C15": ["a length fast-path in DirEntry::eq_name_lfn", "LongNameBuilder::truncate on the directory read path", "validate_long_name counting characters instead of bytes", "byte/char index in ShortNameGenerator::new for names starting with a multi-byte character"],
"C16": ["the choice of the numeric tail in ShortNameGenerator::generate", "the scan in Dir::check_for_existence that feeds the short-name generator", "Dir::rename_internal keeping the source alias when the name is unchanged", "ShortNameGenerator::add_existing skipping aliases whose first byte differs (empty 8.3 base)"],
"C17": ["LongNameBuilder not being cleared when a deleted/volume slot is skipped", "the per-slot checksum comparison in LongNameBuilder::process", "LongNameBuilder::into_buf counting characters instead of UTF-16 units", "Time::decode asserting field ranges"],
"C18": ["the dirty check in DirEntryEditor::set_created", "DirFileEntryData::renamed forgetting create_time_0", "File::update_dir_entry_after_write stamping the modification time only when the file grows", "DirEntryEditor::set_first_cluster assigning the dirty flag"],
"C19": ["the size of the fixed long-name buffer in no-alloc builds", "the non-unicode char_to_uppercase", "LongNameBuilder::truncate searching the terminator in the raw fixed buffer (no-alloc build)", "the no-alloc LfnBuffer::clear keeping a stale length"],
"C20": ["the end bound of Fat32::find_free on a volume whose trailing FAT entries are zero", "the upper 16 bits of the first cluster in set_first_cluster", "32-bit shift in BiosParameterBlock::bytes_from_sectors", "the reserved cluster range in Fat32::get/set widened to 0x0FFFFFF0"],
}
pid, wt = sys.argv[1], sys.argv[2]
here = os.path.dirname(os.path.abspath(__file__))
p = [json.loads(l) for l in open(os.path.join(here, "..", "properties.jsonl")) if json.loads(l)["id"] == pid][0]
prop = "%s - %s\n\n%s\n\nQuantified over: %s\n" % (p["id"], p["title"], p["statement"], p["quantifier"]["text"])
prev = "; ".join(PREV[pid])
print(f"""You are helping to evaluate a verification framework for the Rust crate `fatfs` (rafalh/rust-fatfs, a no_std-capable FAT12/16/32 filesystem library). Your job: produce ONE realistic, subtle source change (a "seeded defect") that BREAKS the semantic property below while the crate still compiles and its existing test suite still passes.

Work ONLY inside the git worktree `{wt}` (a checkout of the library). Do not read or modify anything under /verif or /repo. Do not use the network. Never use `git stash` (the stash is shared between worktrees).

THE PROPERTY ({pid}):
{prop}
REQUIREMENTS FOR THE CHANGE
1. It is a small edit to the library sources under `{wt}/src/` (a few lines), the kind of mistake a maintainer could plausibly make in a refactoring or "optimisation" (off-by-one, forgotten update on one path, wrong order of two steps, missing case, 32-bit arithmetic, reuse of a stale value, ...). Not a blatant sabotage, no new cfg flags, no dead code.
2. It must need something SPECIFIC to manifest: a particular multi-step sequence of operations, an unusual but legal input, a particular volume geometry/FAT type, a fault or crash at a particular point, or two cooperating sites that each look fine alone. Ordinary use (create a file, write, read it back) must NOT expose it at once.
3. With the change applied, `cd {wt} && cargo test --offline --no-fail-fast` must give the same results as without it. (Note: tests whose name contains `fat32` and the three `fsck` tests may fail even on the unmodified tree because a resource image is empty in this sandbox; ignore those. All other tests must still pass.)
4. Provide a demonstration: a self-contained Rust integration test file `{wt}/tests/seeded_demo.rs` (use only the crate's public API plus `std`; an in-memory `std::io::Cursor<Vec<u8>>` formatted with `fatfs::format_volume` is the easiest storage; dev-dependencies already available: `fscommon`, `env_logger`, `tempfile`) that FAILS with your change and PASSES without it. Run it both ways (`git diff -- src > mutation.diff; git checkout -- src; cargo test ...; git apply mutation.diff`) and confirm.
5. DIVERSITY: earlier seeded defects for this property already changed: {prev}. Choose a DIFFERENT function and a different mechanism (for example an error path, a rarely used call such as rename across directories / truncate / extents / unmount / set_* timestamps / seek past the end, the interplay of two handles or of a handle and a rename/remove, a specific FAT width, sector size or cluster size, the no-alloc or no-unicode build, 32-bit arithmetic on large volumes, a volume label or OEM-codepage name, or the behaviour on volumes written by other implementations).
6. Read the code first (src/fs.rs, src/dir.rs, src/file.rs, src/table.rs, src/dir_entry.rs, src/boot_sector.rs, src/time.rs, src/io.rs) and pick a place that really is responsible for the property.

DELIVERABLES (files in {wt}/):
- `mutation.diff`: output of `git diff -- src` containing ONLY the library change (not the demo test).
- `tests/seeded_demo.rs`: the demonstration test.
- `NOTES.md`: 5-15 lines: which part of the property breaks, exactly what is needed for it to manifest (sequence / input / geometry / fault), why ordinary use and the existing tests do not notice, and the exact commands you ran with their outcomes (tests with change, demo with change = fail, demo without change = pass).
Leave the worktree with the change APPLIED and the three files present. In your final answer give a 5-line summary (file/function changed, trigger, demo result).""")
