#!/bin/bash
# usage: libcov.sh   -- line coverage of the library (/repo/src) reached by the program files the last runs of the checks left in work/C*/
# (coverage-instrumented harness built with the nightly toolchain under /tmp/covbuild; report in work/libcov.txt).  A diagnostic for the
# generators: code never reached is code no campaign can say anything about.
set -e
cd "$(dirname "$0")/.."
B=/tmp/covbuild
LT=$(dirname $(find ~/.rustup/toolchains/nightly-x86_64-unknown-linux-gnu -name llvm-profdata | head -1))
(cd harness && RUSTFLAGS="-C instrument-coverage --cfg fatfs_verif --check-cfg cfg(fatfs_verif)" CARGO_TARGET_DIR=$B/target cargo +nightly build --release --offline --no-default-features --features ref >/dev/null 2>&1)
rm -rf $B/prof; mkdir -p $B/prof $B/out
n=0
for pf in work/C*/*-p[0-9][0-9].ndjson; do
  first=$(head -c 2000 "$pf")
  mode=run
  case "$first" in
    *'"sectors"'*) mode=formats;;
    *'"dirs"'*) mode=dirs;;
    *'"muts"'*|*'"fields"'*) mode=mounts;;
  esac
  case "$pf" in work/C09/*) mode=faults;; work/C07/*) mode=mounts;; esac
  n=$((n+1))
  LLVM_PROFILE_FILE=$B/prof/p$n-%p.profraw timeout 600 $B/target/release/fxh $mode "$pf" $B/out/e.ndjson >/dev/null 2>&1 || echo "failed: $pf ($mode)"
done
$LT/llvm-profdata merge -sparse $B/prof/*.profraw -o $B/all.profdata
$LT/llvm-cov report $B/target/release/fxh -instr-profile=$B/all.profdata --ignore-filename-regex='(harness|registry|rustc)' > work/libcov.txt 2>/dev/null
$LT/llvm-cov show $B/target/release/fxh -instr-profile=$B/all.profdata --ignore-filename-regex='(harness|registry|rustc)' --show-line-counts-or-regions > work/libcov-lines.txt 2>/dev/null
cat work/libcov.txt
rm -rf $B/prof $B/out
