#!/usr/bin/env python3
"""Writes /verif/MANIFEST.json from the table below (kept next to the checks so they stay in step)."""
import json, subprocess
props = [json.loads(l)['id'] for l in open('/verif/properties.jsonl')]
TRACE_NOTE = ("Trusted: the harness projection (independent FAT decoder: byte-to-field splitting, chain following for reading, u64 offset-to-region "
              "mapping), TLC, and that generated programs stay inside the documented contract. Conformance is observational: a code path no generated "
              "program drives is not judged.")
C = {
 "C01": dict(cat="model_checking", ref="7 C01",
      text="Every result and every post-call tree of generated namespace histories (random, with live handles, FAT12/16/32) is judged by TLC against the TreeModel reference (Applicable error sets, tree after success, unchanged tree after a non-I/O error).",
      tech="TLA+ TreeModel/FatFsA + TLC trace validation of recorded API traces"),
 "C02": dict(cat="model_checking", ref="7 C02",
      text="Every read/write/seek/truncate/flush/reopen event of generated single- and multi-file programs (boundary offsets around k*cluster) is judged by TLC against the byte-array-with-cursor model.",
      tech="TLA+ TreeModel (file part) + TLC trace validation"),
 "C03": dict(cat="model_checking", ref="7 C03",
      text="After every single call of namespace, file-I/O and fill-to-full histories TLC evaluates the structural invariants (ownership, chains, dot entries, END marker, LFN runs, duplicates) on the raw image projection.",
      tech="TLA+ Fat/DirSlots/FatFsA!StructViol evaluated by TLC on raw-image projections after every event"),
 "C04": dict(cat="model_checking", ref="7 C04",
      text="After every call a clone of the image is mounted afresh and read through the library, and the raw bytes are decoded independently; TLC compares both with the model tree (names, kinds, sizes, contents, stamps) and checks extents against the table.",
      tech="TLA+ Abs(raw)/view comparison by TLC on traces with remount + independent decode at every event"),
 "C05": dict(cat="model_checking", ref="7 C05",
      text="Statistics results, FSInfo after unmount and every NotEnoughSpace result of fill/delete cycles and mixed histories are judged by TLC against the table of the raw image (free = N - used - bad; out-of-space only when legitimately short).",
      tech="TLA+ Fat!FreeCount / FatFsA!SpaceShort evaluated by TLC on traces"),
 "C09": dict(cat="fault_enumeration", ref="7 C09", engine="tlc-fault",
      text="Exhaustive single-fault enumeration: for every operation of representative and random histories on FAT12/16/32, every position k of its device-call sequence is failed once; TLC (TraceFault) requires Io(injected) unless the call was issued from a destructor, and never a panic or budget overrun.",
      tech="single-fault enumeration over device-call positions, outcomes judged by TLC on TraceFault.tla",
      note="Trusted: the guarded drop-depth hook in /repo (attribution of device calls to destructors), the SimDevice fault injector and call budget. Single faults only."),
 "C12": dict(cat="model_checking", ref="7 C12",
      text="At every call boundary of namespace/file histories on volumes whose status byte at mount is clean, dirty, io-error or has reserved bits, TLC checks dirty-bit bracketing of structural changes (computed from raw-image diffs), no bit ever cleared, restoration at unmount/drop, and that mounting the image at that point reports dirty.",
      tech="TLA+ status-byte rules evaluated by TLC on traces (raw-image diff = structural change)"),
 "C13": dict(cat="model_checking", ref="7 C13",
      text="Sessions made only of non-mutating calls on populated FAT12/16/32 volumes (clean, abandoned-dirty, FSInfo unknown, foreign status bits): TLC checks on every event and at drop/unmount that no device write was issued, with the single FSInfo exemption.",
      tech="TLA+ read-only rule evaluated by TLC on device-write logs of traces"),
 "C14": dict(cat="fault_enumeration", ref="7 C14",
      text="For every prefix of the device write log after the first flush point of generated histories, the crash image is mounted afresh; TLC requires every file flushed (up to the last flush the storage has seen) and not modified since to be found with exactly the flushed content.",
      tech="crash-point enumeration over device write-log prefixes, judged by TLC (TraceFatFs crash events)",
      note="Trusted: SimDevice write log; power cut modelled as loss of a suffix of the write sequence on a cache that honours flush (no reordering, no torn writes)."),
 "C06": dict(cat="model_checking", ref="7 C06", engine="tlc-format",
      text="Every outcome of a grid of format requests (all thresholds of the sizing heuristics and FAT-type limits +-{0,1,2} sectors and +- one cluster, option grid, exact cluster-count limits, very large tables, random grid) is judged by TLC: Format!ValidFormatted evaluated in exact limb arithmetic on the independently decoded image, InvalidInput on rejection, never a panic, defaults always succeed from 42 sectors.",
      tech="TLA+ Geometry/Format (exact Nat64 limb arithmetic) + TLC on recorded format outcomes",
      note="Trusted: independent BPB parse and decoder in the harness. The 2^32 default-options sweep through the boot-sector hook is the thorough tier."),
 "C07": dict(cat="model_checking", ref="7 C07", engine="tlc-mount",
      text="Mount attempts on FAT12/16/32 images with mutated boot-sector/FSInfo fields (8-bit fields exhaustively, 16-bit strided or exhaustive, 32-bit at 2^k, 2^k+-1, thresholds, random, 2-4 field combinations, truncated devices, strict and non-strict); TLC evaluates Geometry!Coherent in exact arithmetic on every accepted volume and compares the derived width, cluster size and cluster count.",
      tech="TLA+ Geometry!Coherent (exact limb arithmetic) + TLC on recorded mount outcomes",
      note="Trusted: independent BPB parse in the harness. Absence of panics holds for the enumerated inputs only (totality over all byte strings is not provable with this family)."),
 "C15": dict(cat="model_checking", ref="7 C15",
      text="Name campaigns (every ASCII character, BMP code points, astral samples in first/middle/last position, lengths 0..300 with 1-4 byte characters, every character whose upper-case expansion differs with folded partners and near misses, alias lookups, renames to invalid names): TLC judges acceptance (Names!NameErrors), error kind, absence of side effects, the stored name and every lookup (fold keys).",
      tech="TLA+ Names (validity, fold keys from the Rust std table) + TreeModel, TLC trace validation"),
 "C16": dict(cat="model_checking", ref="7 C16",
      text="Directories populated with names colliding on both alias forms (incl. names searched for equal 16-bit checksum), alias look-alikes, non-ASCII and dotted names, removals in between: for every created entry TLC checks Names!LegalShortName, uniqueness within the directory and the checksum link of every long-name slot; creation must return within the device-call budget.",
      tech="TLA+ Names!LegalShortName / DirSlots!Class evaluated by TLC on the raw directory projection after every creation"),
 "C18": dict(cat="model_checking", ref="7 C18",
      text="Explicit stamps over the field ranges (thorough: every (y,m,d)) set, flushed/closed and read back through a fresh mount and from the raw entry, plus random histories under a deterministic clock with access-date updating on and off: TLC applies Stamps!Trunc10ms/Trunc2s/DateOf and the stamping rules (create once, write, read, rename keeps, other entries untouched).",
      tech="TLA+ Stamps + TreeModel stamping rules, TLC trace validation"),
 "C08": dict(cat="model_checking", ref="7 C08",
      text="Volumes from an independent, seeded, specification-driven image builder (every encoding freedom listed in the property) are listed through the library and decoded by Abs(raw); TLC compares both with the builder's ground truth (names, attributes, stamps, sizes, contents), validates the built image itself against the structural invariants, and judges library mutations with the invariants and the frame clauses (FAT entries, slot digests, BAD marks, inactive copies, high nibbles).",
      tech="TLA+ Abs(raw)/view vs ground truth + frame clauses, TLC trace validation on builder volumes"),
 "C10": dict(cat="model_checking", ref="7 C10",
      text="Histories (incl. fill to exhaustion) on builder volumes with 1-3 table copies, mirroring on/off with each active copy, FAT32 high nibbles, free-looking padding entries: after every call TLC checks copies equal or inactive copies untouched, entries 0/1 and padding unchanged, no link beyond the last cluster, high nibbles preserved.",
      tech="TLA+ table-copy clauses evaluated by TLC on every FAT copy of the raw projection"),
 "C11": dict(cat="model_checking", ref="7 C11",
      text="Every device write of histories on own and builder volumes embedded in a larger device (guard bytes, filler in reserved sectors/boot code), also with devices performing short transfers, is mapped to its region in u64 arithmetic; TLC checks the region is permitted (status byte, FSInfo, tables, fixed root, clusters) and that written clusters belong to objects the call may change or were free.",
      tech="TLA+ write-containment clauses evaluated by TLC on region-mapped device-write logs"),
 "C20": dict(cat="model_checking", ref="7 C20",
      text="Sparse builder volumes of 4 GiB, 1 TiB+, 2 TiB-512 B and at the FAT32 cluster limit (4096-byte sectors) with the next-free hint at/before/past the last cluster, unknown, and around the 2 GiB/4 GiB/1 TiB marks: short histories judged by the same model and raw-image oracles (contents by half-cluster digest, extents, statistics, no access at or beyond the declared end).",
      tech="the same TLA+ oracles (TreeModel, FatFsA) on traces from sparse large volumes; offsets mapped in u64 by the projection",
      note="Trusted: the u64 offset arithmetic of the harness decoder/region mapper (about 40 lines). File sizes above 2^31 are not explored (TLC integers)."),
}
checks = []
for p in props:
    if p in C:
        c = C[p]
        checks.append({
            "property_id": p,
            "quick_cmd": "./check %s --tier quick" % p,
            "thorough_cmd": "./check %s --tier thorough" % p,
            "evidence_file": "/verif/evidence/%s.json" % p,
            "replay_cmd_template": "./check replay {path}",
            "engine": c.get("engine", "tlc-trace"),
            "level_claimed": {"category": c["cat"], "text": c["text"], "design_ref": "DESIGN.md section " + c["ref"]},
            "level_note": c.get("note", TRACE_NOTE),
            "technique": c["tech"],
        })
hooks = subprocess.run(['git', '-C', '/repo', 'log', '--format=%H %s'], stdout=subprocess.PIPE, text=True).stdout.splitlines()
hook_commits = [l.split()[0] for l in hooks if 'verif hook' in l]
m = {
 "version": 1,
 "setup_cmd": "./check setup",
 "hooks": {"guard": "fatfs_verif", "enable": "rustflags --cfg fatfs_verif in /verif/harness/.cargo/config.toml (the harness is a separate crate with a path dependency on /repo)",
           "baseline_off_cmd": "python3 /verif/tools/baseline.py", "source_commits": hook_commits, "add_only": True},
 "engines": [{"name": "tlc-format", "path": "/verif/spec/TraceFormat.tla", "serves_properties": ["C06"], "kind_free_text": "TLA+ Nat64/Geometry/Format + TLC on outcomes of `fxh formats`"},
             {"name": "tlc-mount", "path": "/verif/spec/TraceMount.tla", "serves_properties": ["C07"], "kind_free_text": "TLA+ Nat64/Geometry + TLC on outcomes of `fxh mounts`"},
             {"name": "tlc-fault", "path": "/verif/spec/TraceFault.tla", "serves_properties": ["C09"], "kind_free_text": "TLA+ TraceFault + TLC on fault-enumeration traces produced by `fxh faults`"},
             {"name": "tlc-trace", "path": "/verif/spec", "serves_properties": sorted(k for k in C if C[k].get("engine", "tlc-trace") == "tlc-trace"), "kind_free_text": "TLA+ specification (Names, Fat, DirSlots, TreeModel, FatFsA, Stamps) + TLC; TraceFatFs validates NDJSON traces recorded from the real library by /verif/harness"}],
 "checks": checks,
 "not_applicable": [{"property_id": p, "reason": "check not built yet (build in progress, DESIGN.md section 9)"} for p in props if p not in C],
 "notes": "Every verdict is produced by TLC evaluating the TLA+ specification on traces recorded from the real code; see DESIGN.md.",
}
json.dump(m, open('/verif/MANIFEST.json', 'w'), indent=1)
print("manifest: %d checks, %d not_applicable" % (len(checks), len(m["not_applicable"])))
