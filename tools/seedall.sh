#!/bin/bash
# usage: seedall.sh [seed ids...]   -- regression over the kept seeded changes: applies each seeded/<id>/patch.diff to the repository the
# harness builds from (VP_RUN_REPO in a `vp run --with-repo` snapshot, else /repo), runs the owning check (quick tier), undoes the change.
# Prints one line per seed: detected / MISSED.  Never run two of these on the same repository at once.
cd "$(dirname "$0")/.."
REPO=${VP_RUN_REPO:-/repo}
if [ -n "$VP_RUN_REPO" ]; then sed -i "s|path = \"/repo\"|path = \"$VP_RUN_REPO\"|" harness/Cargo.toml; fi
ids="$@"
[ -z "$ids" ] && ids=$(ls seeded | sort)
git -C $REPO status --short | grep -q . && { echo "repository not clean"; exit 2; }
miss=0
for s in $ids; do
  prop=${s%%-*}
  git -C $REPO apply "$PWD/seeded/$s/patch.diff" || { echo "$s APPLY-FAILED"; continue; }
  t0=$(date +%s)
  ./check $prop --tier quick > work-seed-$s.log 2>&1
  rc=$?
  git -C $REPO checkout -- .
  if [ $rc -eq 1 ] && grep -q "^VIOLATION property=$prop " work-seed-$s.log; then
    echo "$s detected ($(grep -c '^VIOLATION' work-seed-$s.log) lines, $(( $(date +%s) - t0 ))s): $(grep -m1 '^VIOLATION' work-seed-$s.log | sed 's/.*(\(.*\))/\1/' | cut -c1-80)"
  else
    echo "$s MISSED (exit $rc)"; miss=$((miss+1))
  fi
done
echo "missed: $miss"
