------------------------------- MODULE Nat64 -------------------------------
(***************************************************************************)
(* Exact arithmetic on naturals up to 2^75 as little-endian sequences of   *)
(* five limbs in base 2^15.  TLC integers are 32-bit; sector counts, FAT   *)
(* sizes and their products reach 2^47.                                    *)
(***************************************************************************)
EXTENDS Integers, Sequences

B == 32768
W == 5
Zero == [i \in 1..W |-> 0]
FromInt(n) == <<n % B, (n \div B) % B, n \div (B * B), 0, 0>>      \* 0 <= n < 2^31
IsLimbs(a) == Len(a) = W /\ \A i \in 1..W : a[i] >= 0 /\ a[i] < B

RECURSIVE AddC(_, _, _, _)
AddC(a, b, i, c) == IF i > W THEN <<>> ELSE LET s == a[i] + b[i] + c IN <<s % B>> \o AddC(a, b, i + 1, s \div B)
Add(a, b) == AddC(a, b, 1, 0)

RECURSIVE MulC(_, _, _, _)
MulC(a, k, i, c) == IF i > W THEN <<>> ELSE LET s == a[i] * k + c IN <<s % B>> \o MulC(a, k, i + 1, s \div B)   \* k < 2^15
MulSmall(a, k) == MulC(a, k, 1, 0)
\* multiplication by k < 2^30 given as k = k1 * 2^15 + k0
ShiftLimb(a) == <<0, a[1], a[2], a[3], a[4]>>
Mul30(a, k) == Add(MulSmall(a, k % B), ShiftLimb(MulSmall(a, k \div B)))

RECURSIVE CmpFrom(_, _, _)
CmpFrom(a, b, i) == IF i = 0 THEN 0 ELSE IF a[i] < b[i] THEN -1 ELSE IF a[i] > b[i] THEN 1 ELSE CmpFrom(a, b, i - 1)
Cmp(a, b) == CmpFrom(a, b, W)
Lt(a, b) == Cmp(a, b) < 0
Leq(a, b) == Cmp(a, b) <= 0
Eq(a, b) == Cmp(a, b) = 0

RECURSIVE SubB(_, _, _, _)
SubB(a, b, i, br) == IF i > W THEN <<>> ELSE LET s == a[i] - b[i] - br IN <<(s + B) % B>> \o SubB(a, b, i + 1, IF s < 0 THEN 1 ELSE 0)
Sub(a, b) == SubB(a, b, 1, 0)          \* requires Leq(b, a)

\* division by small k (0 < k < 2^15): from the most significant limb, remainder * B + limb < 2^30
RECURSIVE DivR(_, _, _, _)
DivR(a, k, i, r) == IF i = 0 THEN [q |-> <<>>, r |-> r]
                    ELSE LET cur == r * B + a[i] rest == DivR(a, k, i - 1, cur % k) IN [q |-> rest.q \o <<cur \div k>>, r |-> rest.r]
DivSmall(a, k) == DivR(a, k, W, 0).q
ModSmall(a, k) == DivR(a, k, W, 0).r

\* value as a TLC integer when it fits (a < 2^30), else -1
ToInt(a) == IF a[3] = 0 /\ a[4] = 0 /\ a[5] = 0 THEN a[1] + a[2] * B ELSE -1
FitsInt(a) == a[3] = 0 /\ a[4] = 0 /\ a[5] = 0

\* a mod 2^32 (2^32 = 4 * B^2): what 32-bit wrapping arithmetic computes
Wrap32(a) == [i \in 1..W |-> IF i <= 2 THEN a[i] ELSE IF i = 3 THEN a[3] % 4 ELSE 0]
Two32 == <<0, 0, 4, 0, 0>>
Fits32(a) == Lt(a, Two32)
=============================================================================
