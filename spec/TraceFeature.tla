---------------------------- MODULE TraceFeature ----------------------------
(***************************************************************************)
(* C19: build features change only what they document.                     *)
(* One event per operation of a program executed by two builds of the      *)
(* library: a = reference (std+alloc+lfn+unicode), b = the other build     *)
(* (fixed long-name buffer, or ASCII-only folding on ASCII histories).     *)
(* The events are stripped to the fields every build can produce: op,      *)
(* arguments, result, session listing, raw projection digest, image digest.*)
(* The only permitted difference is none.                                  *)
(***************************************************************************)
EXTENDS Integers, Sequences, FiniteSets, TLC, Json, IOUtils

VARIABLES l
Rec == ndJsonDeserialize(IOEnv.TRACE)
Tag(t, ok) == IF ok THEN {} ELSE {t}

Viol(e) ==
   IF e.op # "pair" THEN {}
   ELSE LET which == IF e.other = "noalloc" THEN "C19.alloc_equiv" ELSE "C19.ascii_equiv" IN
        Tag(which, e.a = e.b)

Init == l = 1
Next ==
   /\ l <= Len(Rec)
   /\ l' = l + 1
   /\ LET e == Rec[l] IN \A t \in Viol(e) : PrintT(<<"VIOL", t, e.pid, e.i, e.a.op>>)
Spec == Init /\ [][Next]_l
TraceAccepted == TLCGet("stats").diameter = Len(Rec) + 1
=============================================================================
