--------------------------- MODULE TraceDirDecode ---------------------------
(***************************************************************************)
(* C17: directory decoding is total on arbitrary slot contents.            *)
(* One event per directory: sl = the slots before the END marker as the    *)
(* independent decoder splits them, r = what iterating the directory       *)
(* through the library returned (every accessor called).                   *)
(***************************************************************************)
EXTENDS Integers, Sequences, FiniteSets, SequencesExt, TLC, Json, IOUtils, DirSlots, Stamps

VARIABLES l
Rec == ndJsonDeserialize(IOEnv.TRACE)
Has(e, k) == k \in DOMAIN e
Tag(t, ok) == IF ok THEN {} ELSE {t}

\* indexes of the slots a reader must return, in order: live short slots that are not volume labels
Expected(sl) == SelectSeq([i \in 1..Len(sl) |-> i], LAMBDA i : sl[i].t = "S" /\ ~IsVol(sl[i]))

\* a slot whose attribute byte has the four "long name" bits and more: readers disagree whether it is a
\* long-name slot, so the classification of a run next to it is not demanded
AmbiguousNear(sl, i) ==
   LET a == RunStart(sl, i) IN
   (a > 1 /\ sl[a - 1].t = "S" /\ AmbiguousAttr(sl[a - 1])) \/ (\E j \in a..(i - 1) : sl[j].at # 15)

NameVerdict(sl, i, lib) ==
   IF AmbiguousNear(sl, i) THEN Len(lib) <= 255
   ELSE LongNameOk(sl, i, lib)

Viol(e) ==
   IF e.op # "dirdec" THEN {}
   ELSE   Tag("C17.no_panic", e.r.k \notin {"panic", "hang"})
     \cup (IF e.r.k # "ok" THEN {}
           ELSE LET sl == e.sl
                    ex == Expected(sl)
                    en == e.r.ents
                IN Tag("C17.count", Len(en) = Len(ex) /\ \A j \in 1..Len(ex) : en[j].sn = ShortDisplay(sl[ex[j]].n))
                   \cup (IF Len(en) # Len(ex) THEN {}
                         ELSE   Tag("C17.len255", \A j \in 1..Len(en) : Len(en[j].ln) <= 255)
                           \cup Tag("C17.long_valid_or_none", \A j \in 1..Len(ex) : NameVerdict(sl, ex[j], en[j].ln))
                           \cup Tag("C17.broken_none", \A j \in 1..Len(ex) :
                                       (~AmbiguousNear(sl, ex[j]) /\ Class(sl, ex[j]).c \in {"broken", "none"}) => en[j].ln = <<>>)
                           \cup Tag("C17.fields", \A j \in 1..Len(ex) :
                                       LET s == sl[ex[j]] IN
                                       /\ en[j].at = s.at % 64
                                       /\ en[j].d = ((s.at \div 16) % 2 = 1)
                                       /\ en[j].f = ~en[j].d
                                       /\ (s.sz >= 0 => en[j].sz = s.sz)
                                       /\ en[j].ct = DecodeCreated(s.ct) /\ en[j].mt = DecodeModified(s.mt) /\ en[j].ad = DecodeDate(s.ad)
                                       /\ (Has(en[j], "fn") /\ en[j].ln = <<>> => en[j].fn = OemDecode("lossy", ShortDisplayNt(s.n, s.nt))))))

Init == l = 1
Next ==
   /\ l <= Len(Rec)
   /\ l' = l + 1
   /\ LET e == Rec[l] IN
         /\ \A t \in Viol(e) : PrintT(<<"VIOL", t, e.pid, e.i, "dirdec">>)
         \* a directory generated from LfnReader carries the long names the model's reader returns: a difference is model drift
         /\ ("pred" \in DOMAIN e => PrintT(<<"INFO", "compared", e.pid, e.i, "dirdec">>))
         /\ (("pred" \in DOMAIN e /\ e.r.k = "ok" /\ [j \in 1..Len(e.r.ents) |-> e.r.ents[j].ln] # e.pred)
               => PrintT(<<"NOTE", "B.lfn", e.pid, e.i, "dirdec">>))
Spec == Init /\ [][Next]_l
TraceAccepted == TLCGet("stats").diameter = Len(Rec) + 1
=============================================================================
