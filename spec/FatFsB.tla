------------------------------- MODULE FatFsB -------------------------------
(***************************************************************************)
(* Layer B: an implementation-shaped model of the library's algorithms,    *)
(* small enough for TLC to explore exhaustively.                           *)
(*                                                                         *)
(*   fat  : cluster -> 0 (free) | -1 (end of chain) | next cluster         *)
(*   dirs : directory id -> sequence of slots before the END marker;       *)
(*          id = first cluster, 0 = the fixed root directory of FAT12/16   *)
(*          (when ROOT = 0 the root is the chain starting at cluster 2)    *)
(*   hint : next-free hint,  free : cached free-cluster count              *)
(*   op, res : the last public call and its result                         *)
(*                                                                         *)
(* One action per public call, written the way the code is written:        *)
(* find_entry, first-fit find_free_entries over deleted runs / END,        *)
(* long-name slots then the short slot, hinted allocation with wrap,       *)
(* create_dir = alloc -> entry -> "." -> "..", remove = free chain -> mark  *)
(* slots, rename = ancestor check -> new entry -> ".." -> mark old slots.  *)
(* Legacy holds the names of historical behaviours of the code (before the *)
(* fix: commits); with Legacy = {} the model is the shipped code, and TLC  *)
(* shows that each member of Legacy breaks an invariant.                   *)
(***************************************************************************)
EXTENDS Integers, Sequences, FiniteSets, SequencesExt, TLC, Fat

CONSTANTS N,          \* number of data clusters (2..N+1)
          SPC,        \* directory slots per cluster
          ROOT,       \* capacity of the fixed root directory in slots; 0 = root is a cluster chain
          MaxOps,
          Features,   \* subset of {"handles", "mount"}: file handles with deferred entry write-back; mount / unmount protocol
          Legacy      \* subset of {"rename_delete_first", "no_dotdot_update", "no_capacity_check", "no_rollback",
                      \*            "create_dir_leak", "rename_into_self", "hint_past_end", "fsinfo_not_dirty_on_free", "no_dirty_flag_on_dir_write"}

VARIABLES fat, dirs, hint, free, op, res, nops,
          hs,        \* open file handles: handle id -> [d, i, cl, sz, dirty]  (the in-memory DirEntryEditor of File)
          vol        \* [mounted, stDisk, stMount, changed, fiDisk, fiDirty]: status byte (dirty bit) and FSInfo persistence

vars == <<fat, dirs, hint, free, op, res, nops, hs, vol>>

Names == {"a", "A", "b", "L"}
FoldClass(n) == IF n \in {"a", "A"} THEN 1 ELSE IF n = "b" THEN 2 ELSE 3
LfnSlots(n) == IF n = "L" THEN 2 ELSE 1          \* long-name slots in front of the short slot

Cl == 2..(N + 1)
RootId == IF ROOT = 0 THEN 2 ELSE 0
IsRoot(d) == d = RootId

Used == {c \in Cl : fat[c] # 0}

RECURSIVE ChainB(_, _, _)
ChainB(f, c, fuel) == IF c \notin Cl \/ fuel = 0 \/ f[c] = 0 THEN <<>>
                      ELSE IF f[c] = -1 THEN <<c>> ELSE <<c>> \o ChainB(f, f[c], fuel - 1)
Chain(c) == IF c = 0 THEN <<>> ELSE ChainB(fat, c, N + 1)
Terminated(f, c) == c = 0 \/ (LET ch == ChainB(f, c, N + 1) IN ch # <<>> /\ f[ch[Len(ch)]] = -1)

Capacity(d) == IF d = 0 /\ ROOT > 0 THEN ROOT ELSE Len(Chain(d)) * SPC

Dot(c) == [t |-> "S", n |-> ".", kind |-> "d", cl |-> c, sz |-> 0]
DotDot(p) == [t |-> "S", n |-> "..", kind |-> "d", cl |-> p, sz |-> 0]
IsLive(s) == s.t = "S" /\ s.n \notin {".", ".."}

\* index of the short slot of the entry named like n (case-insensitively), 0 if none  -- find_entry
Find(d, n) ==
   LET hit == {i \in 1..Len(dirs[d]) : IsLive(dirs[d][i]) /\ FoldClass(dirs[d][i].n) = FoldClass(n)} IN
   IF hit = {} THEN 0 ELSE CHOOSE i \in hit : \A j \in hit : i <= j

\* first slot of the run (long-name slots + short slot) whose short slot is at index i
RunFirst(d, i) == i - LfnSlots(dirs[d][i].n)

(* ---------------- allocation (alloc_cluster) ---------------- *)
\* result [c, fat, hint, free]; c = 0 when nothing is free
AllocIn(f, h, fr, prev) ==
   LET used == {c \in Cl : f[c] # 0}
       c == FirstFreeFrom(used, N, h)
   IN IF c = 0 THEN [c |-> 0, fat |-> f, hint |-> h, free |-> fr]
      ELSE [c |-> c,
            fat |-> [x \in Cl |-> IF x = c THEN -1 ELSE IF x = prev THEN c ELSE f[x]],
            hint |-> IF "hint_past_end" \in Legacy THEN c + 1 ELSE (IF c + 1 <= N + 1 THEN c + 1 ELSE 2),
            free |-> fr - 1]

FreeChainIn(f, c) == LET ch == ChainB(f, c, N + 1) IN [x \in Cl |-> IF x \in ToSet(ch) THEN 0 ELSE f[x]]

(* ---------------- placing an entry (find_free_entries + write_entry) ---------------- *)
\* Place(f, h, fr, ds, d, run): write the slots `run` (long-name slots then the short slot) into directory d.
\* result [ok, fat, hint, free, slots]
Place(f, h, fr, ds, d, run) ==
   LET sl == ds[d]
       k == Len(run)
       n == Len(sl)
       cap == IF d = 0 /\ ROOT > 0 THEN ROOT ELSE Len(ChainB(f, d, N + 1)) * SPC
       \* first fit: a run of k deleted slots ...
       fits == {a \in 1..n : a + k - 1 <= n /\ \A j \in a..(a + k - 1) : sl[j].t = "D"}
       \* ... or the END marker, counting the deleted slots right before it
       trailing == CHOOSE t \in 0..n : (\A j \in (n - t + 1)..n : sl[j].t = "D") /\ (t = n \/ sl[n - t].t # "D")
       start == n - trailing + 1
       put(s, a) == [j \in 1..(IF a + k - 1 > Len(s) THEN a + k - 1 ELSE Len(s)) |->
                        IF j >= a /\ j <= a + k - 1 THEN run[j - a + 1] ELSE s[j]]
   IN IF fits # {} /\ (CHOOSE a \in fits : \A b \in fits : a <= b) <= start
      THEN [ok |-> TRUE, fat |-> f, hint |-> h, free |-> fr, slots |-> put(sl, CHOOSE a \in fits : \A b \in fits : a <= b)]
      ELSE IF start + k - 1 <= cap
      THEN [ok |-> TRUE, fat |-> f, hint |-> h, free |-> fr, slots |-> put(sl, start)]
      ELSE IF d = 0 /\ ROOT > 0
      THEN \* the fixed root cannot grow
           IF "no_capacity_check" \in Legacy
           THEN \* historical: the slots that still fit were written, then WriteZero
                [ok |-> FALSE, fat |-> f, hint |-> h, free |-> fr,
                 slots |-> [j \in 1..cap |-> IF j >= start THEN run[j - start + 1] ELSE sl[j]]]
           ELSE [ok |-> FALSE, fat |-> f, hint |-> h, free |-> fr, slots |-> sl]
      ELSE \* a cluster directory grows by one cluster when the write crosses the end of its chain
           LET ch == ChainB(f, d, N + 1)
               a == AllocIn(f, h, fr, ch[Len(ch)])
           IN IF a.c # 0 THEN [ok |-> TRUE, fat |-> a.fat, hint |-> a.hint, free |-> a.free, slots |-> put(sl, start)]
              ELSE \* volume full: the slots written so far are marked deleted again (rollback)
                   [ok |-> FALSE, fat |-> f, hint |-> h, free |-> fr,
                    slots |-> IF "no_rollback" \in Legacy
                              THEN [j \in 1..cap |-> IF j >= start THEN run[j - start + 1] ELSE sl[j]]
                              ELSE [j \in 1..cap |-> IF j >= start THEN [t |-> "D"] ELSE sl[j]]]

RunFor(n, kind, cl, sz) == [j \in 1..LfnSlots(n) |-> [t |-> "L", n |-> n, k |-> LfnSlots(n) - j + 1]]
                           \o <<[t |-> "S", n |-> n, kind |-> kind, cl |-> cl, sz |-> sz]>>

MarkDeleted(sl, a, b) == [j \in 1..Len(sl) |-> IF j >= a /\ j <= b THEN [t |-> "D"] ELSE sl[j]]

DirIds == DOMAIN dirs

(* ---------------- the abstraction: the tree a reader sees ---------------- *)
RECURSIVE Facts(_, _, _, _)
Facts(ds, d, path, fuel) ==
   IF fuel = 0 THEN {}
   ELSE UNION {LET s == ds[d][i] p == Append(path, s.n) IN
               {[p |-> p, kind |-> s.kind, sz |-> s.sz]} \cup (IF s.kind = "d" /\ s.cl \in DOMAIN ds THEN Facts(ds, s.cl, p, fuel - 1) ELSE {})
               : i \in {j \in 1..Len(ds[d]) : IsLive(ds[d][j])}}
Tree == Facts(dirs, RootId, <<>>, N + 1)

(* ---------------- actions ---------------- *)
Init ==
   /\ fat = [c \in Cl |-> IF ROOT = 0 /\ c = 2 THEN -1 ELSE 0]
   /\ dirs = (RootId :> <<>>)
   /\ hint = IF ROOT = 0 THEN 3 ELSE 2
   /\ free = IF ROOT = 0 THEN N - 1 ELSE N
   /\ op = [op |-> "init"] /\ res = "ok" /\ nops = 0
   /\ hs = <<>>
   /\ vol = [mounted |-> TRUE, stDisk |-> 0, stMount |-> 0, changed |-> FALSE,
             fiDisk |-> [free |-> IF ROOT = 0 THEN N - 1 ELSE N, next |-> IF ROOT = 0 THEN 3 ELSE 2], fiDirty |-> FALSE]

\* bookkeeping common to every call: a call that changed the table or a directory sets the dirty bit on disk (FsIoAdapter /
\* File::write call set_dirty_flag) and, when the count or hint changed, marks FSInfo dirty
Mark == vol' = IF fat' # fat \/ dirs' # dirs
                THEN [vol EXCEPT !.stDisk = (IF "no_dirty_flag_on_dir_write" \in Legacy /\ fat' = fat THEN @ ELSE 1),
                                 !.changed = TRUE,
                                 !.fiDirty = (@ \/ (IF "fsinfo_not_dirty_on_free" \in Legacy THEN free' < free ELSE free' # free) \/ hint' # hint)]
                ELSE vol
Done(o, r) == op' = o /\ res' = r /\ nops' = nops + 1 /\ Mark
Unchanged == UNCHANGED <<fat, dirs, hint, free>>
KeepH == UNCHANGED hs
\* the documented contract: an object with a live handle is not removed, renamed or reopened
Busy(d, i) == \E h \in DOMAIN hs : hs[h].d = d /\ hs[h].i = i

CreateFileBody(d, n) ==
   LET i == Find(d, n) o == [op |-> "create_file", d |-> d, n |-> n] IN
   IF i # 0 THEN
      IF dirs[d][i].kind = "f" THEN Unchanged /\ Done(o, "ok") ELSE Unchanged /\ Done(o, "InvalidInput")
   ELSE LET p == Place(fat, hint, free, dirs, d, RunFor(n, "f", 0, 0)) IN
        /\ fat' = p.fat /\ hint' = p.hint /\ free' = p.free
        /\ dirs' = [dirs EXCEPT ![d] = p.slots]
        /\ Done(o, IF p.ok THEN "ok" ELSE "NotEnoughSpace")

CreateDirBody(d, n) ==
   LET i == Find(d, n) o == [op |-> "create_dir", d |-> d, n |-> n] IN
   IF i # 0 THEN
      IF dirs[d][i].kind = "d" THEN Unchanged /\ Done(o, "ok") ELSE Unchanged /\ Done(o, "InvalidInput")
   ELSE LET a == AllocIn(fat, hint, free, 0) IN
        IF a.c = 0 THEN Unchanged /\ Done(o, "NotEnoughSpace")
        ELSE LET p == Place(a.fat, a.hint, a.free, dirs, d, RunFor(n, "d", a.c, 0)) IN
             IF p.ok THEN
                /\ fat' = p.fat /\ hint' = p.hint /\ free' = p.free
                /\ dirs' = [x \in DirIds \cup {a.c} |->
                              IF x = a.c THEN <<Dot(a.c), DotDot(IF IsRoot(d) THEN 0 ELSE d)>>
                              ELSE IF x = d THEN p.slots ELSE dirs[x]]
                /\ Done(o, "ok")
             ELSE \* the cluster allocated for the new directory is given back
                /\ fat' = (IF "create_dir_leak" \in Legacy THEN p.fat ELSE FreeChainIn(p.fat, a.c))
                /\ hint' = p.hint
                /\ free' = (IF "create_dir_leak" \in Legacy THEN p.free ELSE p.free + 1)
                /\ dirs' = [dirs EXCEPT ![d] = p.slots]
                /\ Done(o, "NotEnoughSpace")

HasChildren(c) == \E j \in 1..Len(dirs[c]) : IsLive(dirs[c][j])

RemoveEntryBody(d, n) ==
   LET i == Find(d, n) o == [op |-> "remove", d |-> d, n |-> n] IN
   IF i = 0 THEN Unchanged /\ Done(o, "NotFound")
   ELSE LET s == dirs[d][i] IN
        IF s.kind = "d" /\ HasChildren(s.cl) THEN Unchanged /\ Done(o, "DirectoryIsNotEmpty")
        ELSE /\ fat' = (IF s.cl = 0 THEN fat ELSE FreeChainIn(fat, s.cl))
             /\ free' = free + Len(Chain(s.cl))
             /\ hint' = hint
             /\ dirs' = [x \in (IF s.kind = "d" THEN DirIds \ {s.cl} ELSE DirIds) |->
                           IF x = d THEN MarkDeleted(dirs[d], RunFirst(d, i), i) ELSE dirs[x]]
             /\ Done(o, "ok")

\* is directory d the directory c or inside it (walk up through the ".." entries)
RECURSIVE Inside(_, _, _)
Inside(d, c, fuel) == IF d = c THEN TRUE ELSE IF IsRoot(d) \/ fuel = 0 THEN FALSE
                      ELSE LET up == dirs[d][2].cl IN Inside(IF up = 0 THEN RootId ELSE up, c, fuel - 1)

RenameBody(d1, n1, d2, n2) ==
   LET i == Find(d1, n1) o == [op |-> "rename", d |-> d1, n |-> n1, d2 |-> d2, n2 |-> n2] IN
   IF i = 0 THEN Unchanged /\ Done(o, "NotFound")
   ELSE LET s == dirs[d1][i]
            j == Find(d2, n2)
        IN IF s.kind = "d" /\ "rename_into_self" \notin Legacy /\ Inside(d2, s.cl, N + 1) THEN Unchanged /\ Done(o, "InvalidInput")
           ELSE IF j # 0 THEN
                IF d1 = d2 /\ i = j THEN Unchanged /\ Done(o, "ok") ELSE Unchanged /\ Done(o, "AlreadyExists")
           ELSE IF "rename_delete_first" \in Legacy THEN
                \* historical order: the old slots are marked deleted first, then the new entry is written
                LET ds1 == [dirs EXCEPT ![d1] = MarkDeleted(dirs[d1], RunFirst(d1, i), i)]
                    p == Place(fat, hint, free, ds1, d2, RunFor(n2, s.kind, s.cl, s.sz))
                IN /\ fat' = p.fat /\ hint' = p.hint /\ free' = p.free
                   /\ dirs' = [ds1 EXCEPT ![d2] = p.slots]
                   /\ Done(o, IF p.ok THEN "ok" ELSE "NotEnoughSpace")
           ELSE LET p == Place(fat, hint, free, dirs, d2, RunFor(n2, s.kind, s.cl, s.sz)) IN
                IF ~p.ok THEN /\ fat' = p.fat /\ hint' = p.hint /\ free' = p.free
                              /\ dirs' = [dirs EXCEPT ![d2] = p.slots]
                              /\ Done(o, "NotEnoughSpace")
                ELSE LET ds2 == [dirs EXCEPT ![d2] = p.slots]
                         \* a moved directory points to its new parent
                         ds3 == IF s.kind = "d" /\ "no_dotdot_update" \notin Legacy
                                THEN [ds2 EXCEPT ![s.cl] = [@ EXCEPT ![2] = DotDot(IF IsRoot(d2) THEN 0 ELSE d2)]] ELSE ds2
                         \* the old run is still where it was (nothing moves); mark it deleted
                     IN /\ fat' = p.fat /\ hint' = p.hint /\ free' = p.free
                        /\ dirs' = [ds3 EXCEPT ![d1] = MarkDeleted(ds3[d1], RunFirst(d1, i), i)]
                        /\ Done(o, "ok")

\* append one cluster of data to a file and write its entry back (write + flush)
AppendClusterBody(d, n) ==
   LET i == Find(d, n) o == [op |-> "append", d |-> d, n |-> n] IN
   IF i = 0 \/ dirs[d][i].kind # "f" THEN Unchanged /\ Done(o, "NotFound")
   ELSE LET s == dirs[d][i]
            ch == Chain(s.cl)
            a == AllocIn(fat, hint, free, IF ch = <<>> THEN 0 ELSE ch[Len(ch)])
        IN IF a.c = 0 THEN Unchanged /\ Done(o, "NotEnoughSpace")
           ELSE /\ fat' = a.fat /\ hint' = a.hint /\ free' = a.free
                /\ dirs' = [dirs EXCEPT ![d][i] = [s EXCEPT !.cl = IF s.cl = 0 THEN a.c ELSE s.cl, !.sz = s.sz + 1]]
                /\ Done(o, "ok")

\* truncate a file to zero length (seek 0 + truncate + flush)
TruncateBody(d, n) ==
   LET i == Find(d, n) o == [op |-> "truncate", d |-> d, n |-> n] IN
   IF i = 0 \/ dirs[d][i].kind # "f" THEN Unchanged /\ Done(o, "NotFound")
   ELSE LET s == dirs[d][i] IN
        /\ fat' = (IF s.cl = 0 THEN fat ELSE FreeChainIn(fat, s.cl))
        /\ free' = free + Len(Chain(s.cl))
        /\ hint' = hint
        /\ dirs' = [dirs EXCEPT ![d][i] = [s EXCEPT !.cl = 0, !.sz = 0]]
        /\ Done(o, "ok")

\* the public calls: contract guards (mounted, no live handle on the object) around the bodies above
CreateFile(d, n) == KeepH /\ vol.mounted /\ CreateFileBody(d, n)
CreateDir(d, n) == KeepH /\ vol.mounted /\ CreateDirBody(d, n)
RemoveEntry(d, n) == KeepH /\ vol.mounted /\ ~Busy(d, Find(d, n)) /\ RemoveEntryBody(d, n)
Rename(d1, n1, d2, n2) == KeepH /\ vol.mounted /\ ~Busy(d1, Find(d1, n1)) /\ RenameBody(d1, n1, d2, n2)
AppendCluster(d, n) == KeepH /\ vol.mounted /\ ~Busy(d, Find(d, n)) /\ AppendClusterBody(d, n)
Truncate(d, n) == KeepH /\ vol.mounted /\ ~Busy(d, Find(d, n)) /\ TruncateBody(d, n)

(* ---------------- file handles: the directory entry is written back on flush / drop only ---------------- *)
Hid == 1..1

OpenH(d, n) ==
   LET i == Find(d, n) o == [op |-> "open", d |-> d, n |-> n] IN
   /\ "handles" \in Features /\ vol.mounted /\ DOMAIN hs = {} /\ i # 0 /\ dirs[d][i].kind = "f"
   /\ hs' = (1 :> [d |-> d, i |-> i, cl |-> dirs[d][i].cl, sz |-> dirs[d][i].sz, dirty |-> FALSE])
   /\ Unchanged /\ Done(o, "ok")

\* File::write of one cluster at the end: allocation and data now, size and first cluster only in the handle
WriteH(h) ==
   LET o == [op |-> "hwrite", h |-> h]
       ch == ChainB(fat, hs[h].cl, N + 1)
       a == AllocIn(fat, hint, free, IF hs[h].cl = 0 THEN 0 ELSE ch[Len(ch)])
   IN /\ "handles" \in Features /\ vol.mounted
      /\ IF a.c = 0 THEN Unchanged /\ KeepH /\ Done(o, "NotEnoughSpace")
         ELSE /\ fat' = a.fat /\ hint' = a.hint /\ free' = a.free /\ UNCHANGED dirs
              /\ hs' = [hs EXCEPT ![h] = [@ EXCEPT !.cl = IF @ = 0 THEN a.c ELSE @, !.sz = @ + 1, !.dirty = TRUE]]
              /\ Done(o, "ok")

\* File::truncate at offset 0: the chain is freed at once, the entry still names the old first cluster until flush
TruncH(h) ==
   LET o == [op |-> "htrunc", h |-> h] IN
   /\ "handles" \in Features /\ vol.mounted
   /\ fat' = (IF hs[h].cl = 0 THEN fat ELSE FreeChainIn(fat, hs[h].cl))
   /\ free' = free + Len(ChainB(fat, hs[h].cl, N + 1))
   /\ hint' = hint /\ UNCHANGED dirs
   /\ hs' = [hs EXCEPT ![h] = [@ EXCEPT !.cl = 0, !.sz = 0, !.dirty = TRUE]]
   /\ Done(o, "ok")

\* File::flush / drop: entry write-back (DirEntryEditor::flush), then the handle may go
FlushH(h, close) ==
   LET o == [op |-> IF close THEN "hclose" ELSE "hflush", h |-> h] IN
   /\ "handles" \in Features /\ vol.mounted
   /\ dirs' = IF hs[h].dirty THEN [dirs EXCEPT ![hs[h].d][hs[h].i] = [@ EXCEPT !.cl = hs[h].cl, !.sz = hs[h].sz]] ELSE dirs
   /\ hs' = IF close THEN <<>> ELSE [hs EXCEPT ![h].dirty = FALSE]
   /\ UNCHANGED <<fat, hint, free>>
   \* (a timestamp-only write-back would not count as a change; a size / cluster write-back happens only after a write,
   \*  which has set the dirty bit already)
   /\ op' = o /\ res' = "ok" /\ nops' = nops + 1
   /\ vol' = vol

(* ---------------- mount / unmount: status byte and FSInfo ---------------- *)
\* unmount: FSInfo is written when dirty (FAT32), then the status byte gets its mount-time value back
Unmount ==
   /\ "mount" \in Features /\ vol.mounted /\ DOMAIN hs = {}
   /\ vol' = [vol EXCEPT !.mounted = FALSE, !.stDisk = vol.stMount,
                         !.fiDisk = IF vol.fiDirty THEN [free |-> free, next |-> hint] ELSE @, !.fiDirty = FALSE]
   /\ Unchanged /\ KeepH /\ op' = [op |-> "unmount"] /\ res' = "ok" /\ nops' = nops + 1
\* forgetting the FileSystem object: nothing is written
Abandon ==
   /\ "mount" \in Features /\ vol.mounted /\ DOMAIN hs = {}
   /\ vol' = [vol EXCEPT !.mounted = FALSE, !.fiDirty = FALSE]
   /\ Unchanged /\ KeepH /\ op' = [op |-> "abandon"] /\ res' = "ok" /\ nops' = nops + 1
\* mount: the status byte is remembered; a dirty volume's stored free count is not trusted (recounted from the table)
Mount ==
   /\ "mount" \in Features /\ ~vol.mounted
   /\ vol' = [vol EXCEPT !.mounted = TRUE, !.stMount = vol.stDisk, !.changed = FALSE]
   /\ free' = (IF vol.stDisk = 1 THEN N - Cardinality(Used) ELSE vol.fiDisk.free)
   /\ hint' = (IF vol.fiDisk.next \in Cl THEN vol.fiDisk.next ELSE 2)
   /\ UNCHANGED <<fat, dirs>> /\ KeepH /\ op' = [op |-> "mount"] /\ res' = "ok" /\ nops' = nops + 1

Next ==
   /\ nops < MaxOps
   /\ \E d \in DirIds : \E n \in Names :
        \/ CreateFile(d, n)
        \/ CreateDir(d, n)
        \/ RemoveEntry(d, n)
        \/ AppendCluster(d, n)
        \/ Truncate(d, n)
        \/ \E d2 \in DirIds : \E n2 \in Names : Rename(d, n, d2, n2)
        \/ OpenH(d, n)
        \/ (\E h \in DOMAIN hs : WriteH(h) \/ TruncH(h) \/ FlushH(h, FALSE) \/ FlushH(h, TRUE))
        \/ Unmount \/ Abandon \/ Mount

Spec == Init /\ [][Next]_vars

(* ---------------- invariants: C03 / C05 / C10 at design level ---------------- *)
LiveEntries == {<<d, i>> : d \in DirIds, i \in 1..N * SPC + ROOT} \cap {<<d, i>> : d \in DirIds, i \in 1..100}
\* the entry of a file with a live handle is seen through the handle (size and first cluster are written back on flush / drop):
\* the structural invariants hold for this effective view at EVERY step, and for the raw image whenever no handle is dirty.
\* This is the design-level statement of finding D-F20.
EffSlot(d, i) == IF \E h \in DOMAIN hs : hs[h].d = d /\ hs[h].i = i /\ hs[h].dirty
                 THEN LET h == CHOOSE x \in DOMAIN hs : hs[x].d = d /\ hs[x].i = i IN [dirs[d][i] EXCEPT !.cl = hs[h].cl, !.sz = hs[h].sz]
                 ELSE dirs[d][i]
Entries == UNION {{[d |-> d, i |-> i, s |-> EffSlot(d, i)] : i \in {j \in 1..Len(dirs[d]) : IsLive(dirs[d][j])}} : d \in DirIds}

OwnedChains == [e \in Entries |-> Chain(e.s.cl)]
RootChain == IF ROOT = 0 THEN Chain(2) ELSE <<>>

ChainsTerminate == (\A e \in Entries : Terminated(fat, e.s.cl)) /\ (ROOT = 0 => Terminated(fat, 2))
NoCrossLinkB ==
   LET all == FlattenSeq(SetToSeq({OwnedChains[e] : e \in Entries})) \o RootChain
       \* (chains of distinct entries that are equal as sequences would collapse in the set: count separately)
       total == FoldLeft(LAMBDA acc, e : acc + Len(OwnedChains[e]), 0, SetToSeq(Entries)) + Len(RootChain)
   IN Cardinality(ToSet(all)) = total
NoLostB == Used = UNION {ToSet(OwnedChains[e]) : e \in Entries} \cup ToSet(RootChain)
SizeMatch == \A e \in Entries : IF e.s.kind = "f" THEN Len(OwnedChains[e]) = e.s.sz ELSE Len(OwnedChains[e]) >= 1
DirsKnown == \A e \in Entries : e.s.kind = "d" => e.s.cl \in DirIds
DirsReachable == \A c \in DirIds \ {RootId} : Cardinality({e \in Entries : e.s.kind = "d" /\ e.s.cl = c}) = 1
DotEntries ==
   \A e \in Entries : (e.s.kind = "d" /\ e.s.cl \in DirIds) =>
      LET sl == dirs[e.s.cl] IN
      Len(sl) >= 2 /\ sl[1] = Dot(e.s.cl) /\ sl[2] = DotDot(IF IsRoot(e.d) THEN 0 ELSE e.d)
NoOrphanLfn ==
   \A d \in DirIds : \A i \in 1..Len(dirs[d]) :
      dirs[d][i].t = "L" =>
         /\ i < Len(dirs[d])
         /\ LET nx == dirs[d][i + 1] IN
            IF dirs[d][i].k = 1 THEN nx.t = "S" /\ nx.n = dirs[d][i].n
            ELSE nx.t = "L" /\ nx.n = dirs[d][i].n /\ nx.k = dirs[d][i].k - 1
RunsComplete ==
   \A e \in Entries : e.i > LfnSlots(e.s.n) /\
      \A j \in 1..LfnSlots(e.s.n) : LET s == dirs[e.d][e.i - j] IN s.t = "L" /\ s.n = e.s.n /\ s.k = j
NoDup == \A e1, e2 \in Entries : (e1.d = e2.d /\ e1.i # e2.i) => FoldClass(e1.s.n) # FoldClass(e2.s.n)
WithinCapacity == \A d \in DirIds : Len(dirs[d]) <= Capacity(d)
FreeExact == free = N - Cardinality(Used)                                      \* C05
HintInRange == hint \in Cl                                                     \* C05 (FSInfo hint)

StructInv == /\ ChainsTerminate /\ NoCrossLinkB /\ NoLostB /\ SizeMatch /\ DirsKnown /\ DirsReachable /\ DotEntries
             /\ NoOrphanLfn /\ RunsComplete /\ NoDup /\ WithinCapacity

\* C12: from the first change of a session until unmount the dirty bit is set on disk; unmount restores the mount-time byte
DirtyBracket == (vol.mounted /\ vol.changed) => vol.stDisk = 1
StatusNeverCleared == vol.mounted => vol.stDisk >= vol.stMount
\* C05: a cleanly unmounted volume (dirty bit clear) stores the exact count and an in-range hint
FsInfoExact == (~vol.mounted /\ vol.stDisk = 0) => (vol.fiDisk.free = N - Cardinality(Used) /\ vol.fiDisk.next \in Cl)
\* the in-memory count is exact whenever the volume is mounted
FreeExactMounted == vol.mounted => free = N - Cardinality(Used)

(* ---------------- refinement of the reference tree (C01) as an action property ---------------- *)
PathOfDir(d) == LET hit == {f \in Tree : f.kind = "d"} IN d   \* (paths are recomputed through Facts)

\* expected tree after a successful call, from the tree before it
DirPathSet(d) == {f.p : f \in {g \in Facts(dirs, RootId, <<>>, N + 1) : g.kind = "d"}}
RECURSIVE DirPath(_, _)
DirPath(d, fuel) ==
   IF IsRoot(d) \/ fuel = 0 THEN <<>>
   ELSE LET par == CHOOSE e \in Entries : e.s.kind = "d" /\ e.s.cl = d IN Append(DirPath(par.d, fuel - 1), par.s.n)

Refines ==
   [][LET t == Tree t2 == Tree' o == op' IN
      IF res' # "ok" THEN t2 = t                                                    \* C01: a failing call changes nothing
      ELSE CASE o.op = "create_file" ->
                  LET p == Append(DirPath(o.d, N + 1), o.n) IN
                  t2 = t \/ t2 = t \cup {[p |-> p, kind |-> "f", sz |-> 0]}
             [] o.op = "create_dir" ->
                  LET p == Append(DirPath(o.d, N + 1), o.n) IN
                  t2 = t \/ t2 = t \cup {[p |-> p, kind |-> "d", sz |-> 0]}
             [] o.op = "remove" ->
                  Cardinality(t2) = Cardinality(t) - 1 /\ t2 \subseteq t
             [] o.op \in {"append", "truncate", "open", "hwrite", "htrunc", "hflush", "hclose", "unmount", "abandon", "mount"} ->
                  {[p |-> f.p, kind |-> f.kind] : f \in t2} = {[p |-> f.p, kind |-> f.kind] : f \in t}
             [] o.op = "rename" ->
                  \* same number of objects, same multiset of (kind, size): nothing created, lost or emptied
                  Cardinality(t2) = Cardinality(t)
             [] OTHER -> TRUE]_vars
=============================================================================
