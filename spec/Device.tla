------------------------------- MODULE Device -------------------------------
(***************************************************************************)
(* C09 at design level: a public call is a sequence of device steps; one   *)
(* of them (the k-th) may fail.  Two code patterns of the library are      *)
(* modelled: (a) straight-line propagation (`?`): the call stops at the    *)
(* failing step and returns Io; (b) the chain-freeing loop over an         *)
(* iterator that latches its error:                                        *)
(*      while let Some(n) = cluster { next(); write_fat(n, Free) }         *)
(* With Legacy = TRUE the result of next() is ignored, as the code did     *)
(* before the fix: after a failed read the iterator returns the same       *)
(* cluster for ever and the loop never ends.  TLC shows the divergence as  *)
(* a violation of the step budget, and that the repaired loop returns Io.  *)
(***************************************************************************)
EXTENDS Integers, Sequences, TLC

CONSTANTS ChainLen,    \* clusters of the chain to free
          Budget,      \* device-call budget of the harness
          Legacy

VARIABLES pc, cur, latched, calls, failAt, res

vars == <<pc, cur, latched, calls, failAt, res>>

\* failAt = 0: no fault; otherwise the failAt-th device call fails (single fault)
Init == /\ pc = "loop" /\ cur = 1 /\ latched = FALSE /\ calls = 0 /\ res = "running"
        /\ failAt \in 0..(2 * ChainLen + 1)

Fails == failAt # 0 /\ calls + 1 = failAt

\* next(): reads the table entry of the current cluster (one device call) unless the error is latched
StepNext ==
   /\ pc = "loop" /\ res = "running" /\ cur <= ChainLen
   /\ IF latched THEN UNCHANGED <<calls, cur, latched, res>> /\ pc' = "write"          \* returns None at once, cluster unchanged
      ELSE /\ calls' = calls + 1
           /\ IF Fails
              THEN /\ latched' = TRUE
                   /\ IF Legacy THEN pc' = "write" /\ UNCHANGED <<cur, res>>          \* result ignored
                      ELSE res' = "Io" /\ UNCHANGED <<cur, pc>>                        \* propagated
              ELSE /\ pc' = "write" /\ UNCHANGED <<cur, latched, res>>
   /\ UNCHANGED failAt

\* write_fat(n, Free): one device call; its failure is propagated in both versions
StepWrite ==
   /\ pc = "write" /\ res = "running"
   /\ calls' = calls + 1
   /\ IF Fails THEN res' = "Io" /\ UNCHANGED <<cur, pc>>
      ELSE /\ cur' = IF latched THEN cur ELSE cur + 1      \* the latched iterator never advances
           /\ pc' = "loop" /\ UNCHANGED res
   /\ UNCHANGED <<latched, failAt>>

Finish == /\ pc = "loop" /\ res = "running" /\ cur > ChainLen /\ res' = "ok" /\ UNCHANGED <<pc, cur, latched, calls, failAt>>

Next == StepNext \/ StepWrite \/ Finish
Spec == Init /\ [][Next]_vars /\ WF_vars(Next)

WithinBudget == calls <= Budget                                      \* C09.no_hang
Surfaced == (res = "ok") => (failAt = 0 \/ failAt > calls)            \* C09.surfaced: a fault that happened is never swallowed
Terminates == <>(res # "running")
=============================================================================
