----------------------------- MODULE TraceFormat -----------------------------
(***************************************************************************)
(* C06: one event per format request executed by the real library.         *)
(***************************************************************************)
EXTENDS Integers, Sequences, FiniteSets, TLC, Json, IOUtils, Format, FormatImpl

VARIABLES l
Rec == ndJsonDeserialize(IOEnv.TRACE)
Has(e, k) == k \in DOMAIN e

Viol(e) ==
   IF e.op # "fmt" \/ e.r.k = "skip" THEN {}
   ELSE   Tag("C06.no_panic", e.r.k \notin {"panic", "hang"})
     \cup Tag("C06.outcome_kind", e.r.k = "err" => e.r.e = "InvalidInput")
     \cup Tag("C06.default_ok", MustSucceed(e.req) => e.r.k = "ok")
     \cup Tag("C06.beyond", e.beyond = 0)
     \cup (IF e.r.k = "ok" THEN ValidFormatted(e.req, e.b, e.raw, IF Has(e, "bk_eq") THEN e.bk_eq ELSE FALSE, e.mnt)
                                \cup Tag("C06.tail", IF Has(e, "tail") THEN e.tail ELSE TRUE)
           ELSE {})

\* thorough tier: maximal runs of sector counts [lo, hi] for which the default-options boot sector has the same layout
\* (hook verif_format_boot_sector, no I/O).  Every clause below is monotone in the sector count for a fixed layout
\* (the cluster count only grows with it), so it holds on the whole run iff it holds at both ends.
RunViol(e) ==
   IF e.op # "fmtrun" THEN {}
   ELSE   Tag("C06.no_panic", e.r.k \notin {"panic", "hang"})
     \cup Tag("C06.outcome_kind", e.r.k = "err" => e.r.e = "InvalidInput")
     \cup Tag("C06.default_ok", Leq(FromInt(42), e.lo) => e.r.k = "ok")
     \cup (IF e.r.k # "ok" THEN {}
           ELSE UNION {LET b == x[1] T == x[2] n == Clusters(b) ft == FatTypeOf(n) IN
                         Tag("C06.geom", b.bps = 512 /\ b.spc \in {1, 2, 4, 8, 16, 32, 64, 128} /\ b.nfats = 2 /\ Eq(Total(b), T))
                         \cup Tag("C06.coherent", Coherent(b))
                         \cup Tag("C06.fat_type", (ft = 32) = Layout32(b) /\ (ft = 32 => Leq(n, MaxCluster32)) /\ (ft # 32 => b.rootn = 512))
                         \cup Tag("C06.fat_capacity", TableHolds(b, ft))
                         \cup Tag("C06.regions_fit", Leq(Add(FirstData(b), MulSmall(n, b.spc)), Total(b)))
                       : x \in {<<e.blo, e.lo>>, <<e.bhi, e.hi>>}})

\* conformance of the code to FormatImpl (the layout computation as the code performs it): a difference is model drift, not a verdict
Pow2C == {512, 1024, 2048, 4096, 8192, 16384, 32768}
Modelled(q) == ReqBps(q) \in {512, 1024, 2048, 4096} /\ ReqFats(q) \in {1, 2} /\ (("bpc" \in DOMAIN q) => q.bpc \in Pow2C \cup {256})
               /\ (("ft" \in DOMAIN q) => q.ft \in {12, 16, 32}) /\ Lt(q.T, Two32) /\ ~Eq(q.T, Zero)
MReq(q) == LET base == [T |-> q.T, bps |-> ReqBps(q), fats |-> ReqFats(q), root |-> ReqRoot(q)]
               o1 == IF "bpc" \in DOMAIN q THEN [x \in DOMAIN base \cup {"bpc"} |-> IF x = "bpc" THEN q.bpc ELSE base[x]] ELSE base
           IN IF "ft" \in DOMAIN q THEN [x \in DOMAIN o1 \cup {"ft"} |-> IF x = "ft" THEN q.ft ELSE o1[x]] ELSE o1
FDrift(e) ==
   IF e.op # "fmt" \/ e.r.k \notin {"ok", "err"} \/ ~Modelled(e.req) THEN {}
   ELSE LET m == Layout(MReq(e.req)) IN
        IF (e.r.k = "ok") # (m.k = "ok") THEN {"B.format"}
        ELSE IF e.r.k = "ok" /\ ~(\A f \in {"bps", "spc", "rsvd", "nfats", "rootn", "ts16", "ts32", "spf16", "spf32"} : e.b[f] = m.b[f]) THEN {"B.layout"}
        ELSE {}

Init == l = 1
Next ==
   /\ l <= Len(Rec)
   /\ l' = l + 1
   /\ LET e == Rec[l] IN
         /\ \A t \in Viol(e) \cup RunViol(e) : PrintT(<<"VIOL", t, e.pid, e.i, "fmt">>)
         /\ \A t \in FDrift(e) : PrintT(<<"NOTE", t, e.pid, e.i, "fmt">>)
Spec == Init /\ [][Next]_l
TraceAccepted == TLCGet("stats").diameter = Len(Rec) + 1
=============================================================================
