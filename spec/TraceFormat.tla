----------------------------- MODULE TraceFormat -----------------------------
(***************************************************************************)
(* C06: one event per format request executed by the real library.         *)
(***************************************************************************)
EXTENDS Integers, Sequences, FiniteSets, TLC, Json, IOUtils, Format

VARIABLES l
Rec == ndJsonDeserialize(IOEnv.TRACE)
Has(e, k) == k \in DOMAIN e

Viol(e) ==
   IF e.op # "fmt" \/ e.r.k = "skip" THEN {}
   ELSE   Tag("C06.no_panic", e.r.k \notin {"panic", "hang"})
     \cup Tag("C06.outcome_kind", e.r.k = "err" => e.r.e = "InvalidInput")
     \cup Tag("C06.default_ok", MustSucceed(e.req) => e.r.k = "ok")
     \cup Tag("C06.beyond", e.beyond = 0)
     \cup (IF e.r.k = "ok" THEN ValidFormatted(e.req, e.b, e.raw, IF Has(e, "bk_eq") THEN e.bk_eq ELSE FALSE, e.mnt)
                                \cup Tag("C06.tail", IF Has(e, "tail") THEN e.tail ELSE TRUE)
           ELSE {})

Init == l = 1
Next ==
   /\ l <= Len(Rec)
   /\ l' = l + 1
   /\ LET e == Rec[l] IN \A t \in Viol(e) : PrintT(<<"VIOL", t, e.pid, e.i, "fmt">>)
Spec == Init /\ [][Next]_l
TraceAccepted == TLCGet("stats").diameter = Len(Rec) + 1
=============================================================================
