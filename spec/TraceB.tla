------------------------------- MODULE TraceB -------------------------------
(***************************************************************************)
(* Conformance of the code to Layer B (FatFsB).  Each event is one call of *)
(* a behaviour generated from the model (MC_BGen) executed on the real     *)
(* library; `tag` carries what the model predicts after the call (result,  *)
(* slots of every directory, the allocation table), `raw` what the         *)
(* independent decoder finds on the image.  A difference is a model drift  *)
(* (the code no longer does what Layer B says), reported as DRIFT: it is   *)
(* information about the model, not a property violation.                   *)
(***************************************************************************)
EXTENDS Integers, Sequences, FiniteSets, SequencesExt, TLC, Json, IOUtils, DirSlots

VARIABLES l, raw

Rec == ndJsonDeserialize(IOEnv.TRACE)
Has(e, k) == k \in DOMAIN e

\* the four model names and the real names the replay uses for them
NmA == <<97>>
NmB == <<65>>
NmC == <<98>>
NmL == <<76, 111, 110, 103, 32, 110, 97, 109, 101, 32, 120, 121, 122, 46, 116, 120, 116>>
BName(us) == IF us = NmA THEN "a" ELSE IF us = NmB THEN "A" ELSE IF us = NmC THEN "b" ELSE IF us = NmL THEN "L" ELSE "?"

\* observed directory -> sequence of model slots
ObsSlots(sl, cs) ==
   LET es == Entries(sl)
       \* index of the short slot that ends the run containing slot i (0 if none)
       owner(i) == LET hit == {j \in 1..Len(es) : es[j].first <= i /\ i <= es[j].i} IN IF hit = {} THEN 0 ELSE CHOOSE j \in hit : TRUE
   IN [i \in 1..Len(sl) |->
        IF sl[i].t = "D" THEN [t |-> "D"]
        ELSE LET j == owner(i) IN
             IF j = 0 THEN [t |-> "?"]
             ELSE LET e == es[j]
                      nm == IF e.dot = 1 THEN "." ELSE IF e.dot = 2 THEN ".." ELSE BName(e.long)
                  IN IF sl[i].t = "L" THEN [t |-> "L", n |-> nm, k |-> sl[i].o % 32]
                     ELSE [t |-> "S", n |-> nm, kind |-> IF e.dir THEN "d" ELSE "f", cl |-> sl[i].cl,
                           sz |-> IF e.dir THEN 0 ELSE (sl[i].sz + cs - 1) \div cs]]

ObsFat(f, n) == [c \in 2..(n + 1) |->
                   LET k == ToString(c) IN
                   IF k \notin DOMAIN f.m THEN 0 ELSE IF f.m[k] >= 4088 THEN -1 ELSE f.m[k]]

Drift(e, r) ==
   IF ~Has(e, "tag") THEN {}
   ELSE LET p == e.tag
            resOk == (p.res = "ok" /\ e.r.k = "ok") \/ (p.res # "ok" /\ e.r.k = "err" /\ e.r.e = p.res)
            idsP == {p.ids[i] : i \in 1..Len(p.ids)}
            idsO == {r.dirs[k].id : k \in 1..Len(r.dirs)}
            dirsOk == idsP = idsO /\ \A k \in 1..Len(r.dirs) :
                         LET want == p.dirs[ToString(r.dirs[k].id)] IN ObsSlots(r.dirs[k].sl, r.g.cs) = want
            fatOk == \A c \in 2..(r.g.n + 1) : ObsFat(r.fats[1], r.g.n)[c] = p.fat[ToString(c)]
        IN (IF p.cmp \in {"res", "both"} /\ ~resOk THEN {"B.result"} ELSE {})
           \cup (IF p.cmp \in {"state", "both"} /\ ~dirsOk THEN {"B.slots"} ELSE {})
           \cup (IF p.cmp \in {"state", "both"} /\ ~fatOk THEN {"B.table"} ELSE {})

(* ---------------- behaviours of FileB (file I/O): result, table, the two directory entries ---------------- *)
NmF == <<70, 32, 32, 32, 32, 32, 32, 32, 66, 73, 78>>          \* "F.BIN"
NmO == <<79, 32, 32, 32, 32, 32, 32, 32, 66, 73, 78>>          \* "O.BIN"
ObsEnt(sl, nm, cell) ==
   LET hit == {i \in 1..Len(sl) : sl[i].t = "S" /\ sl[i].n = nm} IN
   IF hit = {} THEN [cl |-> -1, sz |-> -1]
   ELSE LET s == sl[CHOOSE i \in hit : TRUE] IN [cl |-> s.cl, sz |-> s.sz \div cell, rem |-> s.sz % cell]
DriftF(e, r) ==
   LET p == e.tag
       U == p.cell
       q == p.res
       resOk == IF q.k = "err" THEN e.r.k = "err" /\ e.r.e = q.e
                ELSE /\ e.r.k = "ok"
                     /\ (Has(q, "n") => e.r.n = q.n * U)
                     /\ (Has(q, "pos") => e.r.pos = q.pos * U)
       root == r.dirs[1].sl
       f == ObsEnt(root, NmF, U)
       o == ObsEnt(root, NmO, U)
       entOk == f = [cl |-> p.ent.cl, sz |-> p.ent.sz, rem |-> 0] /\ o = [cl |-> p.oth.cl, sz |-> p.oth.sz, rem |-> 0]
       fatOk == \A c \in 2..(r.g.n + 1) : ObsFat(r.fats[1], r.g.n)[c] = p.fat[ToString(c)]
   IN (IF p.cmp \in {"res", "both"} /\ ~resOk THEN {"B.fresult"} ELSE {})
      \cup (IF p.cmp \in {"state", "both"} /\ ~entOk THEN {"B.fentry"} ELSE {})
      \cup (IF p.cmp \in {"state", "both"} /\ ~fatOk THEN {"B.ftable"} ELSE {})

(* ---------------- behaviours of AliasGen: the alias the library gave the entry created last ---------------- *)
DriftA(e, r) ==
   LET a == e.tag.alias
       hit == \E k \in 1..Len(r.dirs) : LET sl == r.dirs[k].sl IN Len(sl) > 0 /\ sl[Len(sl)].t = "S" /\ sl[Len(sl)].n = a
   IN IF e.r.k = "ok" /\ hit THEN {} ELSE {"B.alias"}

Init == l = 1 /\ raw = [ok |-> FALSE]
Next ==
   /\ l <= Len(Rec)
   /\ l' = l + 1
   /\ LET e == Rec[l]
          r == IF Has(e, "raw") THEN e.raw ELSE raw
      IN /\ raw' = r
         /\ \A t \in (IF Has(e, "tag") /\ Has(e.tag, "alias") THEN DriftA(e, r) ELSE IF Has(e, "tag") /\ Has(e.tag, "cell") THEN DriftF(e, r) ELSE Drift(e, r)) : PrintT(<<"NOTE", t, e.pid, e.i, e.op>>)
         /\ (Has(e, "tag") => PrintT(<<"INFO", "compared", e.pid, e.i, e.op>>))
Spec == Init /\ [][Next]_<<l, raw>>
TraceAccepted == TLCGet("stats").diameter = Len(Rec) + 1
=============================================================================
