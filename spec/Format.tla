------------------------------- MODULE Format -------------------------------
(***************************************************************************)
(* C06: what a successful format must have produced, for a request         *)
(*   req = [T (limbs: total sectors), bps, bpc (0 = automatic), fats,      *)
(*          root (0 = default 512), ft (0 = automatic), label (<<>> = none)]*)
(* b = the boot sector as parsed independently (Geometry record),          *)
(* raw = decoder projection of the formatted image.                        *)
(***************************************************************************)
EXTENDS Integers, Sequences, FiniteSets, TLC, Geometry

Tag(t, ok) == IF ok THEN {} ELSE {t}
Get(e, k, d) == IF k \in DOMAIN e THEN e[k] ELSE d

ReqRoot(req) == Get(req, "root", 512)
ReqFats(req) == Get(req, "fats", 2)
ReqBps(req) == Get(req, "bps", 512)

\* entries 0 and 1 of a table copy: media descriptor in the low byte of entry 0, all other bits one;
\* entry 1 an end-of-chain mark
Entry01Ok(f, ft, media) ==
   LET max == IF ft = 12 THEN 4095 ELSE IF ft = 16 THEN 65535 ELSE 268435455 IN
   /\ f.e0 = max - 255 + media
   /\ f.e1 >= max - 7                \* any end-of-chain mark (the two top bits of FAT16/32 are the clean-shutdown / no-error flags)

ValidFormatted(req, b, raw, bkEq, mnt) ==
   LET n == Clusters(b)
       ft == FatTypeOf(n)
       N == ToInt(n)
       isDefault == ~("bpc" \in DOMAIN req) /\ ~("ft" \in DOMAIN req)
   IN
     Tag("C06.geom", b.bps = ReqBps(req) /\ b.bps \in {512, 1024, 2048, 4096} /\ b.spc \in {1, 2, 4, 8, 16, 32, 64, 128}
                     /\ b.nfats = ReqFats(req) /\ Eq(Total(b), req.T)
                     /\ (("bpc" \in DOMAIN req) => b.bps * b.spc = req.bpc))
   \cup Tag("C06.coherent", Coherent(b))
   \cup Tag("C06.fat_type", (("ft" \in DOMAIN req) => ft = req.ft) /\ raw.g.ft = ft
                            /\ (ft = 32) = Layout32(b) /\ (ft = 32 => Leq(n, MaxCluster32))
                            /\ (ft # 32 => b.rootn = ReqRoot(req)))
   \cup Tag("C06.fat_capacity", TableHolds(b, ft))
   \cup Tag("C06.regions_fit", Leq(Add(FirstData(b), MulSmall(n, b.spc)), Total(b)))
   \cup Tag("C06.backup_equal", ft = 32 => bkEq)
   \cup Tag("C06.fat_init", \A k \in 1..Len(raw.fats) :
                               /\ Entry01Ok(raw.fats[k], ft, b.media)
                               /\ raw.fats[k].bad = <<>>
                               /\ raw.fats[k].used = (IF ft = 32 THEN <<2>> ELSE <<>>))
            \* (entries behind the last cluster are outside the property: the library marks them, other formatters leave zeros)
   \cup Tag("C06.root_empty",
            /\ Len(raw.dirs) = 1
            /\ LET sl == raw.dirs[1].sl IN
               IF "label" \in DOMAIN req
               THEN Len(sl) = 1 /\ sl[1].t = "S" /\ (sl[1].at \div 8) % 2 = 1 /\ sl[1].n = req.label
               ELSE sl = <<>>
            /\ raw.dirs[1].tz)
   \cup Tag("C06.fsinfo", ft = 32 => (raw.fi.ok /\ raw.fi.free = N - 1 /\ raw.fi.next >= 2 /\ raw.fi.next <= N + 1))
   \* (the statistics query must work on the fresh volume: it reads the whole table)
   \cup Tag("C06.mounts", mnt.k = "ok" /\ "tot" \in DOMAIN mnt /\ mnt.ft = ft /\ mnt.cs = FromInt(b.bps * b.spc) /\ mnt.tot = n)
   \cup Tag("C06.free", (mnt.k = "ok" /\ "free" \in DOMAIN mnt) => mnt.free = (IF ft = 32 THEN Sub(n, FromInt(1)) ELSE n))

\* with default options and 512-byte sectors every size from 42 sectors up must be accepted
MustSucceed(req) ==
   /\ ~("bpc" \in DOMAIN req) /\ ~("ft" \in DOMAIN req) /\ ~("root" \in DOMAIN req) /\ ~("fats" \in DOMAIN req)
   /\ ReqBps(req) = 512
   /\ Leq(FromInt(42), req.T)
=============================================================================
