----------------------------- MODULE TraceFault -----------------------------
(***************************************************************************)
(* C09: storage errors surface as I/O errors.                              *)
(* One event per faulted execution: the k-th device call of one public     *)
(* call failed with an injected error.  Device.tla is the design-level      *)
(* model of the same rule (a call is a sequence of device steps; a failing *)
(* step outside a destructor makes the call return Io(injected)).          *)
(***************************************************************************)
EXTENDS Integers, Sequences, FiniteSets, TLC, Json, IOUtils

VARIABLES l

Rec == ndJsonDeserialize(IOEnv.TRACE)
Has(e, k) == k \in DOMAIN e
Tag(t, ok) == IF ok THEN {} ELSE {t}

\* the rule of the property, as a predicate on one observation
Surfaced(e) == e.r.k = "err" /\ e.r.e = "Io" /\ e.r.io = "injected" /\ e.r.id = 1

Viol(e) ==
   IF e.op # "fault" \/ ~e.hit THEN {}
   ELSE   Tag("C09.no_panic", e.r.k # "panic" /\ ~(Has(e, "bad") /\ e.bad.r.k = "panic"))
     \cup Tag("C09.no_hang", e.r.k # "hang" /\ ~(Has(e, "bad") /\ e.bad.r.k = "hang"))
     \cup (IF e.flt.drop \/ e.r.k \in {"panic", "hang"} THEN {} ELSE Tag("C09.surfaced", Surfaced(e)))

Init == l = 1
Next ==
   /\ l <= Len(Rec)
   /\ l' = l + 1
   /\ LET e == Rec[l] IN
      \A t \in Viol(e) : PrintT(<<"VIOL", t, e.pid, e.i, e.name, e.k, e.flt.kind>>)
Spec == Init /\ [][Next]_l
TraceAccepted == TLCGet("stats").diameter = Len(Rec) + 1
=============================================================================
