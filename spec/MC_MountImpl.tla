---------------------------- MODULE MC_MountImpl ----------------------------
(* every BPB over a grid of boundary values of every field: Sound and Exact of MountImpl *)
EXTENDS MountImpl

CONSTANT Deep
VARIABLE b

L(n) == FromInt(n)
Big(k) == <<0, 0, k, 0, 0>>                   \* k * 2^30
Bps == IF Deep THEN {256, 512, 1024, 4096, 8192, 32768} ELSE {256, 512, 4096, 8192}
Spc == IF Deep THEN {0, 1, 2, 3, 128, 255} ELSE {0, 1, 3, 128}
NFats == IF Deep THEN {0, 1, 2, 255} ELSE {0, 2, 255}
Spf16 == IF Deep THEN {0, 1, 9, 65535} ELSE {0, 9, 65535}
Spf32 == {Zero, L(1), L(600), L(2100000), Big(2), <<32767, 32767, 3, 0, 0>>}
Ts16 == IF Deep THEN {0, 4300, 65535} ELSE {0, 4300}
Ts32 == {Zero, L(100), L(4300), L(70000), L(70100), L(300000000), <<32767, 32767, 3, 0, 0>>}
RootN == IF Deep THEN {0, 1, 512, 65535} ELSE {0, 512}
Rsvd == IF Deep THEN {0, 1, 32, 65535} ELSE {0, 1, 32}
Fis == {1, 40}
Bks == {6, 40}
RootC == {Zero, L(1), L(2), L(69000), L(268435456), <<32767, 32767, 3, 0, 0>>}
FsVer == {0, 1}

Init == b \in [bps : Bps, spc : Spc, nfats : NFats, spf16 : Spf16, spf32 : Spf32, ts16 : Ts16, ts32 : Ts32, rootn : RootN, rsvd : Rsvd,
               fis : Fis, bks : Bks, rootc : RootC, fsver : FsVer]
Next == UNCHANGED b
Spec == Init /\ [][Next]_b

SoundInv == Sound(b)
ExactInv == Exact(b)
\* vacuity probes (each must be violated): something is accepted as FAT12/16 and as FAT32; something coherent is refused
NoneAccepted16 == ~(BpbAccept(b) /\ ~IsFat32I(b))
NoneAccepted32 == ~(BpbAccept(b) /\ IsFat32I(b))
NoCoherentRefused == ~(SafeCoherentB(b) /\ ~BpbAccept(b))
=============================================================================
