------------------------------- MODULE Stamps -------------------------------
(***************************************************************************)
(* DOS date/time stamps: a time is <<year, month, day, hour, min, sec, ms>>*)
(* C18: creation time is kept to 10 ms, modification time to 2 s, the      *)
(* access stamp is a date.                                                 *)
(***************************************************************************)
EXTENDS Integers, Sequences

Trunc10ms(t) == <<t[1], t[2], t[3], t[4], t[5], t[6], (t[7] \div 10) * 10>>
Trunc2s(t)   == <<t[1], t[2], t[3], t[4], t[5], (t[6] \div 2) * 2, 0>>
DateOf(t)    == <<t[1], t[2], t[3]>>

\* decoding of the on-disk words (what any reader must show)
DecodeDate(d) == <<(d \div 512) + 1980, (d \div 32) % 16, d % 32>>
DecodeTime(w, tenths) == <<w \div 2048, (w \div 32) % 64, (w % 32) * 2 + (tenths \div 100), (tenths % 100) * 10>>
\* ct = <<date word, time word, tenths>>, mt = <<date word, time word>>
DecodeCreated(ct)  == DecodeDate(ct[1]) \o DecodeTime(ct[2], ct[3])
DecodeModified(mt) == DecodeDate(mt[1]) \o DecodeTime(mt[2], 0)

\* encoding (what a writer must store) -- used by the design-level checks
EncodeDate(t) == (t[1] - 1980) * 512 + t[2] * 32 + t[3]
EncodeTime(t) == t[4] * 2048 + t[5] * 32 + (t[6] \div 2)
EncodeTenths(t) == (t[7] \div 10) + (t[6] % 2) * 100

ValidDate(t) == t[1] \in 1980..2107 /\ t[2] \in 1..12 /\ t[3] \in 1..31
ValidTime(t) == t[4] \in 0..23 /\ t[5] \in 0..59 /\ t[6] \in 0..59 /\ t[7] \in 0..999
=============================================================================
