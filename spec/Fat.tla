-------------------------------- MODULE Fat --------------------------------
(***************************************************************************)
(* The allocation table as a partial function and the structural          *)
(* invariants of C03/C05/C10 on it.                                        *)
(*                                                                         *)
(* A table view F is a record                                              *)
(*   [ft |-> 12|16|32, n |-> number of data clusters,                      *)
(*    m  |-> record "c" |-> value  for every non-free, non-BAD entry c,    *)
(*    used |-> sequence of those c (integers, ascending),                  *)
(*    bad  |-> sequence of <<lo, hi>> ranges of entries holding BAD]       *)
(* Free = not in m and not in a bad range, so n may be 2^28 in traces and  *)
(* 5 in model checking.                                                    *)
(***************************************************************************)
EXTENDS Integers, Sequences, FiniteSets, SequencesExt, TLC

EocMin(ft)  == IF ft = 12 THEN 4088 ELSE IF ft = 16 THEN 65528 ELSE 268435448      \* 0xFF8 / 0xFFF8 / 0x0FFFFFF8
BadMark(ft) == IF ft = 12 THEN 4087 ELSE IF ft = 16 THEN 65527 ELSE 268435447      \* 0xFF7 / 0xFFF7 / 0x0FFFFFF7
MaxVal(ft)  == IF ft = 12 THEN 4095 ELSE IF ft = 16 THEN 65535 ELSE 268435455

InRangeC(F, c) == c >= 2 /\ c <= F.n + 1

Val(F, c) == LET k == ToString(c) IN IF k \in DOMAIN F.m THEN F.m[k] ELSE 0

IsBadC(F, c) == \E i \in 1..Len(F.bad) : F.bad[i][1] <= c /\ c <= F.bad[i][2]

IsFreeC(F, c) == InRangeC(F, c) /\ Val(F, c) = 0 /\ ~IsBadC(F, c)

UsedSet(F) == ToSet(F.used)                       \* non-free, non-BAD entries in 2..n+1

BadCount(F) == FoldLeft(LAMBDA acc, r : acc + (r[2] - r[1] + 1), 0, F.bad)

\* number of free clusters = n - |used| - |bad|  (the quantity stats() must report, C05)
FreeCount(F) == F.n - Len(F.used) - BadCount(F)

\* Walk a chain from cluster c.  Result [ch |-> clusters visited, t |-> how it ended]:
\*   "eoc" proper end | "free" link into a free entry | "range" link outside 2..n+1
\*   "bad" link into a BAD entry | "cycle" revisits a cluster (fuel exhausted)
RECURSIVE WalkFrom(_, _, _, _)
WalkFrom(F, c, fuel, acc) ==
   IF ~InRangeC(F, c) THEN [ch |-> acc, t |-> "range"]
   ELSE IF fuel = 0 THEN [ch |-> acc, t |-> "cycle"]
   ELSE IF IsBadC(F, c) THEN [ch |-> acc, t |-> "bad"]
   ELSE LET v == Val(F, c) IN
        IF v = 0 THEN [ch |-> acc, t |-> "free"]
        ELSE IF v >= EocMin(F.ft) THEN [ch |-> Append(acc, c), t |-> "eoc"]
        ELSE IF v = BadMark(F.ft) THEN [ch |-> acc, t |-> "bad"]
        ELSE WalkFrom(F, v, fuel - 1, Append(acc, c))

Walk(F, first) == WalkFrom(F, first, Len(F.used) + 1, <<>>)

\* chain of an entry whose first-cluster field is fc (0 = owns nothing)
ChainOf(F, fc) == IF fc = 0 THEN [ch |-> <<>>, t |-> "eoc"] ELSE Walk(F, fc)

\* every stored link points inside the table or is a terminator (C03.fat_range)
LinksInRange(F) ==
   \A i \in 1..Len(F.used) :
      LET v == Val(F, F.used[i]) IN v >= EocMin(F.ft) \/ v = BadMark(F.ft) \/ InRangeC(F, v)

\* no stored link of a used entry leads to a FREE entry (C03.link_free).  The table writers keep this even when a device call
\* fails half-way: an allocation marks the new cluster before it links it, and a chain is freed from its head
LinksToUsed(F) ==
   \A i \in 1..Len(F.used) :
      LET v == Val(F, F.used[i]) IN (v >= EocMin(F.ft) \/ v = BadMark(F.ft) \/ ~InRangeC(F, v)) \/ Val(F, v) # 0 \/ IsBadC(F, v)

(***************************************************************************)
(* Ownership.  owners = sequence of walk results, one per live directory   *)
(* entry that owns a chain (plus the FAT32 root directory).                *)
(***************************************************************************)
Claimed(owners) == FlattenSeq([i \in 1..Len(owners) |-> owners[i].ch])

\* C03.crosslink: no cluster claimed twice (within one chain or by two entries)
NoCrossLink(owners) == LET cl == Claimed(owners) IN Cardinality(ToSet(cl)) = Len(cl)
\* C03.fat_cycle / proper termination of every owned chain
AllTerminated(owners) == \A i \in 1..Len(owners) : owners[i].t = "eoc"
\* C03.lost: every allocated cluster is claimed by some entry
NoLost(F, owners) == UsedSet(F) \subseteq ToSet(Claimed(owners))

LostSet(F, owners) == UsedSet(F) \ ToSet(Claimed(owners))

(***************************************************************************)
(* Design-level actions on a plain function fat \in [SUBSET Cl -> Cl \cup  *)
(* {EOC}] used by MC_Fat / FatFsB (here EOC = 0 is not a cluster number).  *)
(***************************************************************************)
\* first free cluster scanning hint..N+1 and then 2..hint-1  (alloc_cluster with wrap-around)
FirstFreeFrom(used, N, hint) ==
   LET start == IF hint >= 2 /\ hint < N + 2 THEN hint ELSE 2
       hi == {c \in start..(N + 1) : c \notin used}
       lo == {c \in 2..(start - 1) : c \notin used}
   IN IF hi # {} THEN CHOOSE c \in hi : \A d \in hi : c <= d
      ELSE IF lo # {} THEN CHOOSE c \in lo : \A d \in lo : c <= d
      ELSE 0
=============================================================================
