------------------------------ MODULE MC_Tree ------------------------------
(***************************************************************************)
(* Exhaustive exploration of the reference model (TreeModel) over a small  *)
(* alphabet: 4 names in 2 fold classes plus one multi-slot long name,      *)
(* paths of depth <= 2, namespace operations with and without handles.     *)
(*  - checks the sanity invariants of the reference itself on every        *)
(*    reachable state (the oracle must be a well-formed tree);             *)
(*  - is the program generator of the spec -> code direction: every        *)
(*    transition (distinct tree x operation) is printed as a program with  *)
(*    a shortest history leading to it; the programs are replayed on the   *)
(*    real library and judged by TraceFatFs.                               *)
(***************************************************************************)
EXTENDS TreeModel, Json

CONSTANTS MaxOps, MaxNodes, Gen       \* Gen = TRUE: print one program per transition

VARIABLES m, hist, last

NmA == <<97>>                          \* "a"
NmB == <<65>>                          \* "A"  (same fold class as "a")
NmC == <<98, 46, 116>>                 \* "b.t"
NmL == <<76, 111, 110, 103, 32, 110, 97, 109, 101, 32, 120, 121, 122, 46, 116, 120, 116>>   \* "Long name xyz.txt": two long-name slots
Nms == {NmA, NmB, NmC, NmL}
\* paths as sequences of components, depth <= 2; the first component of a deep path is a short name
Paths == {<<n>> : n \in Nms} \cup {<<d, n>> : d \in {NmA, NmC}, n \in Nms}

Ops ==   {[op |-> "create_file", p |-> p] : p \in Paths}
    \cup {[op |-> "create_dir", p |-> p] : p \in Paths}
    \cup {[op |-> "open_file", p |-> p] : p \in Paths}
    \cup {[op |-> "open_dir", p |-> p] : p \in Paths}
    \cup {[op |-> "remove", p |-> p] : p \in Paths}
    \cup {[op |-> "list", p |-> p] : p \in {<<>>, <<NmA>>, <<NmC>>, <<NmB>>}}
    \cup {[op |-> "rename", p |-> p, q |-> q] : p \in Paths, q \in {<<NmB>>, <<NmC>>, <<NmL>>, <<NmA, NmC>>, <<NmC, NmA>>, <<NmA, NmA>>}}

Stamp0 == [ct |-> <<>>, mt |-> <<>>, ad |-> <<>>]
EmptyFold == <<>>

\* the outcome of op in model state s: [mand, next]
Apply(s, o) ==
   CASE o.op \in {"create_file", "create_dir"} ->
        LET out == CreateOutcome(s, 0, o.p, IF o.op = "create_file" THEN "f" ELSE "d") IN
        IF out.mand # {} \/ out.fx.t # "create" THEN [mand |-> out.mand, next |-> s]
        ELSE [mand |-> {}, next |-> ApplyCreate(s, out.fx, Stamp0)]
     [] o.op \in {"open_file", "open_dir"} ->
        LET out == OpenOutcome(s, 0, o.p, IF o.op = "open_file" THEN "f" ELSE "d") IN [mand |-> out.mand, next |-> s]
     [] o.op = "remove" ->
        LET out == RemoveOutcome(s, 0, o.p) IN
        IF out.mand # {} THEN [mand |-> out.mand, next |-> s] ELSE [mand |-> {}, next |-> ApplyRemove(s, out.fx.node)]
     [] o.op = "rename" ->
        LET out == RenameOutcome(s, 0, o.p, 0, o.q) IN
        IF out.mand # {} \/ out.fx.t # "rename" THEN [mand |-> out.mand, next |-> s] ELSE [mand |-> {}, next |-> ApplyRename(s, out.fx)]
     [] o.op = "list" ->
        LET out == ListOutcome(s, 0, o.p) IN [mand |-> out.mand, next |-> s]

Init == m = EmptyModel /\ hist = <<>> /\ last = [mand |-> {}]

Next ==
   /\ Len(hist) < MaxOps
   /\ \E o \in Ops :
        LET r == Apply(m, o) IN
        /\ Cardinality(Ids(r.next)) <= MaxNodes
        /\ m' = r.next
        /\ hist' = Append(hist, o)
        /\ last' = [mand |-> r.mand]
        /\ (Gen => PrintT(<<"PROG", ToJson([ops |-> hist', mand |-> r.mand])>>))

Spec == Init /\ [][Next]_<<m, hist, last>>

\* node identity is irrelevant: two model states with the same facts are the same tree
View == <<TreeFacts(m), Len(hist) >= MaxOps>>

(* ---------------- sanity invariants of the reference ---------------- *)
WellFormed ==
   /\ \A i \in Ids(m) : m.nodes[i].par = 0 \/ (m.nodes[i].par \in Ids(m) /\ m.nodes[m.nodes[i].par].kind = "d")
   /\ \A i, j \in Ids(m) : (i # j /\ m.nodes[i].par = m.nodes[j].par) => m.nodes[i].keys \cap m.nodes[j].keys = {}
   /\ \A i \in Ids(m) : IsAncestorOrSelf(m, 0, i, 8)              \* everything is reachable from the root
   /\ \A i \in Ids(m) : Key(m.nodes[i].name) \in m.nodes[i].keys
\* a failing call changes nothing; a succeeding create/remove/rename changes exactly what it names
ErrorsAreDocumented == last.mand \subseteq {"NotFound", "InvalidInput", "AlreadyExists", "DirectoryIsNotEmpty",
                                            "InvalidFileNameLength", "UnsupportedFileNameCharacter"}
=============================================================================
