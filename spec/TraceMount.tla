----------------------------- MODULE TraceMount -----------------------------
(***************************************************************************)
(* C07: mounting is total.  One event per mount attempt on mutated boot    *)
(* sector / FSInfo bytes: b = independent parse of the bytes (Geometry     *)
(* record), r = what the library did.                                      *)
(***************************************************************************)
EXTENDS Integers, Sequences, FiniteSets, TLC, Json, IOUtils, MountImpl

VARIABLES l
Rec == ndJsonDeserialize(IOEnv.TRACE)
Has(e, k) == k \in DOMAIN e
Tag(t, ok) == IF ok THEN {} ELSE {t}

\* the geometry operators are total only on sane divisors; Coherent guards them itself
SafeCoherent(b) == b.bps \in {512, 1024, 2048, 4096} /\ b.spc \in {1, 2, 4, 8, 16, 32, 64, 128} /\ Coherent(b)

Viol(e) ==
   IF e.op # "mnt" \/ e.r.k = "skip" THEN {}
   ELSE   Tag("C07.no_panic", e.r.k \notin {"panic", "hang"})
     \cup (IF e.r.k # "ok" THEN {}
           ELSE Tag("C07.accept_coherent", SafeCoherent(e.b))
                \cup (IF SafeCoherent(e.b)
                      THEN Tag("C07.derived", /\ e.r.ft = DerivedType(e.b)
                                              /\ e.r.cs = FromInt(DerivedClusterSize(e.b))
                                              /\ (Has(e.r, "tot") => e.r.tot = Clusters(e.b)))
                      ELSE {}))

\* using an accepted coherent volume whose other bytes are garbage: reported, not judged here
Notes(e) ==
   IF e.op = "mnt" /\ e.r.k = "ok" /\ Has(e, "use")
      /\ ((Has(e.use, "list") /\ e.use.list.k \in {"panic", "hang"}) \/ (Has(e.use, "stats") /\ e.use.stats.k \in {"panic", "hang"}) \/ Has(e.use, "hang"))
   THEN {"use_panics"} ELSE {}

\* conformance of the code to MountImpl (the acceptance test as the code performs it): a difference is model drift, not a verdict
NoFi == [inside |-> FALSE, lead |-> Zero, struc |-> Zero, trail |-> Zero]
Drift(e) ==
   IF e.op # "mnt" \/ e.r.k \notin {"ok", "err"} \/ Has(e, "trunc") \/ ~Has(e, "b") THEN {}
   ELSE IF (e.r.k = "ok") = ImplAccept(e.b, e.strict, IF Has(e, "fi") THEN e.fi ELSE NoFi) THEN {} ELSE {"B.mount"}

Init == l = 1
Next ==
   /\ l <= Len(Rec)
   /\ l' = l + 1
   /\ LET e == Rec[l] IN
      /\ \A t \in Viol(e) : PrintT(<<"VIOL", t, e.pid, e.i, "mnt">>)
      /\ \A t \in Notes(e) : PrintT(<<"NOTE", t, e.pid, e.i, "mnt">>)
      /\ \A t \in Drift(e) : PrintT(<<"NOTE", t, e.pid, e.i, "mnt">>)
Spec == Init /\ [][Next]_l
TraceAccepted == TLCGet("stats").diameter = Len(Rec) + 1
=============================================================================
