----------------------------- MODULE FormatImpl -----------------------------
(***************************************************************************)
(* Design level of C06: the layout computation of format_volume            *)
(* (determine_fs_layout, determine_bytes_per_cluster,                       *)
(* determine_sectors_per_fat, try_fs_layout, the BPB fields of format_bpb)  *)
(* transcribed over limbs, for a request                                    *)
(*   req = [T (sectors, limbs), bps, fats, root] + optional bpc, ft.        *)
(* Layout(req) is either [k |-> "err"] (InvalidInput) or [k |-> "ok", b]    *)
(* with the BPB record that Geometry judges.  MC_FormatImpl enumerates a    *)
(* grid of requests around every threshold and checks that an accepted      *)
(* request gets a coherent layout of the requested width whose table holds  *)
(* every cluster and whose regions fit (ValidLayoutB), and that default      *)
(* requests of 42 sectors and more succeed; TraceFormat compares Layout      *)
(* with what the library did on every recorded format (drift NOTE).          *)
(* Cluster sizes up to 32 KiB (the divisor of the table-size quotient must   *)
(* stay below 2^15 for DivSmall).                                            *)
(***************************************************************************)
EXTENDS Integers, Sequences, FiniteSets, TLC, Geometry

CONSTANT LegacyF      \* subset of {"spf_round_down" (seeded C06-1: the table-size quotient rounded down)}: TLC refutes ValidInv

GetF(e, k, d) == IF k \in DOMAIN e THEN e[k] ELSE d

RECURSIVE Pow2L(_)
Pow2L(k) == IF k = 0 THEN FromInt(1) ELSE MulSmall(Pow2L(k - 1), 2)
P2 == [k \in 0..48 |-> Pow2L(k)]
\* exponent of u64::next_power_of_two (x >= 1)
NextPow2Exp(x) == CHOOSE k \in 0..48 : Leq(x, P2[k]) /\ (k = 0 \/ Lt(P2[k - 1], x))
Pow2Int(e) == IF e < 0 THEN 0 ELSE IF e >= 31 THEN -1 ELSE 2 ^ e            \* -1: does not fit (only compared after clamping)

EstimateType(tb) == IF Lt(tb, FromInt(4300800)) THEN 12 ELSE IF Lt(tb, FromInt(536870912)) THEN 16 ELSE 32

\* determine_bytes_per_cluster; the u32 results before clamping are powers of two 2^e (or 0): the clamp needs only e
BytesPerCluster(tb, bps, ftOpt) ==
   LET ft == IF ftOpt = 0 THEN EstimateType(tb) ELSE ftOpt
       k == NextPow2Exp(tb)
       \* exponent of the unclamped value, -1 = the value 0 (or a u32 that wrapped to 0)
       e == IF ft = 12 THEN (IF k < 20 \/ k - 11 >= 32 THEN -1 ELSE k - 11)
            ELSE IF ft = 16 THEN (IF Leq(tb, FromInt(16777216)) THEN 10 ELSE IF Leq(tb, FromInt(134217728)) THEN 11 ELSE k - 16)
            ELSE (IF Leq(tb, FromInt(272629760)) THEN 9 ELSE IF Leq(tb, P2[33]) THEN 12 ELSE k - 21)
       v == IF e < 0 THEN 0 ELSE IF e >= 15 THEN 32768 ELSE 2 ^ e              \* min(value, 32 KiB)
   IN IF v < bps THEN bps ELSE v                                                \* clamp(bps, 32 KiB); bps <= 4096

TypeOfN(n) == IF Lt(n, FromInt(4085)) THEN 12 ELSE IF Lt(n, FromInt(65525)) THEN 16 ELSE 32
MaxClusters(ft) == IF ft = 12 THEN FromInt(4084) ELSE IF ft = 16 THEN FromInt(65524) ELSE FromInt(268435444)

\* try_fs_layout: [ok, rsvd, spf (limbs)]
TryLayout(T, bps, spc, ft, rds, fats) ==
   LET rsvd == IF ft = 32 THEN 8 ELSE 1 IN
   IF Leq(T, FromInt(rsvd + rds + 8)) THEN [ok |-> FALSE]
   ELSE LET t0 == Sub(T, FromInt(rsvd + rds))
            t1 == Add(t0, FromInt(2 * spc))
            t2 == (spc * bps * 8) \div ft + fats
            spf == DivSmall(Add(t1, FromInt(IF "spf_round_down" \in LegacyF THEN 0 ELSE t2 - 1)), t2)
            meta == Add(FromInt(rsvd + rds), MulSmall(spf, fats))
        IN IF ~Lt(meta, T) THEN [ok |-> FALSE, wrap |-> TRUE]                  \* (u32 subtraction would wrap: never reached, see NoWrap)
           ELSE LET n == DivSmall(Sub(T, meta), spc) IN
                IF TypeOfN(n) # ft \/ Lt(MaxClusters(ft), n) THEN [ok |-> FALSE]
                ELSE [ok |-> TRUE, rsvd |-> rsvd, spf |-> spf]

RECURSIVE FirstLayout(_, _, _, _, _, _)
FirstLayout(T, bps, spc, root, fats, fts) ==
   IF fts = <<>> THEN [k |-> "err"]
   ELSE LET ft == Head(fts)
            rds == IF ft = 32 THEN 0 ELSE (root * 32 + bps - 1) \div bps
            r == TryLayout(T, bps, spc, ft, rds, fats)
        IN IF r.ok THEN [k |-> "ok", ft |-> ft, rsvd |-> r.rsvd, spf |-> r.spf, spc |-> spc]
           ELSE FirstLayout(T, bps, spc, root, fats, Tail(fts))

Layout(req) ==
   LET bps == req.bps
       tb == MulSmall(req.T, bps)
       ftOpt == GetF(req, "ft", 0)
       bpc == IF "bpc" \in DOMAIN req THEN req.bpc ELSE BytesPerCluster(tb, bps, ftOpt)
       spc == bpc \div bps
   IN IF spc = 0 \/ spc > 255 \/ bps \notin {512, 1024, 2048, 4096} THEN [k |-> "err"]
      ELSE LET l == FirstLayout(req.T, bps, spc, req.root, req.fats, IF ftOpt = 0 THEN <<32, 16, 12>> ELSE <<ftOpt>>) IN
           IF l.k = "err" THEN l
           ELSE IF l.ft # 32 /\ ~Lt(l.spf, FromInt(65536)) THEN [k |-> "err"]                    \* format_bpb: the 16-bit table size
           ELSE IF l.ft # 32 /\ req.root = 0 THEN [k |-> "err"]                                   \* the final BootSector::validate: a FAT12/16 root needs entries
           ELSE [k |-> "ok", ft |-> l.ft,
                 b |-> [bps |-> bps, spc |-> spc, rsvd |-> l.rsvd, nfats |-> req.fats,
                        rootn |-> IF l.ft = 32 THEN 0 ELSE req.root,
                        ts16 |-> IF l.ft # 32 /\ Lt(req.T, FromInt(65536)) THEN ToInt(req.T) ELSE 0,
                        ts32 |-> IF l.ft # 32 /\ Lt(req.T, FromInt(65536)) THEN Zero ELSE req.T,
                        spf16 |-> IF l.ft = 32 THEN 0 ELSE ToInt(l.spf), spf32 |-> IF l.ft = 32 THEN l.spf ELSE Zero,
                        rootc |-> IF l.ft = 32 THEN FromInt(2) ELSE Zero, fis |-> IF l.ft = 32 THEN 1 ELSE 0, bks |-> IF l.ft = 32 THEN 6 ELSE 0]]

\* what an accepted request must get (the clauses of C06 that concern the layout)
ValidLayoutB(req, l) ==
   LET b == l.b n == Clusters(b) IN
   /\ b.bps \in {512, 1024, 2048, 4096} /\ b.spc \in {1, 2, 4, 8, 16, 32, 64, 128}
   /\ Coherent(b)
   /\ FatTypeOf(n) = l.ft /\ (("ft" \in DOMAIN req) => l.ft = req.ft)
   /\ TableHolds(b, l.ft)
   /\ Leq(Add(FirstData(b), MulSmall(n, b.spc)), Total(b))
   /\ Eq(Total(b), req.T)
DefaultReq(req) == ~("bpc" \in DOMAIN req) /\ ~("ft" \in DOMAIN req) /\ req.bps = 512 /\ req.fats = 2 /\ req.root = 512
=============================================================================
