------------------------------ MODULE AliasGen ------------------------------
(***************************************************************************)
(* Design level of C16: the short-name (8.3 alias) generator of dir.rs as  *)
(* a state machine.  For a new long name the directory is scanned          *)
(* (add_existing fills two bitmaps for the CURRENT hash), generate() picks  *)
(* the name itself if it fits and is free, else the first free PREFIX~i     *)
(* (i in 1..NL), else the first free PPhhhh~j (j in 1..NH, hhhh the hash),  *)
(* else next_iteration() steps the hash and the directory is scanned again. *)
(*                                                                         *)
(* The aliases that matter for one new name are  F (the name itself),       *)
(* L_i = PREFIX~i  and  H_{c,j} = PP<c>~j; `existing` is any set of them    *)
(* (at most MaxExisting: a directory is finite).  TLC checks on every       *)
(* behaviour that the alias chosen is not in the directory (Unique), that   *)
(* the loop ends (Terminates, under fairness) and within HMAX iterations    *)
(* (Bounded).  Legacy: "saturate" (seeded C16-7: the hash sticks at its      *)
(* largest value), "bit_count" (C16-1: tail = number of taken tails + 1).    *)
(* With Gen = TRUE the initial states are the structured family used for    *)
(* the replay on the code (HMAX = 65536, hashes around the wrap).           *)
(***************************************************************************)
EXTENDS Integers, FiniteSets, Sequences, TLC, Json

CONSTANTS HMAX,          \* number of hash values (65536 in the code)
          NL, NH,        \* numeric tails of the two forms (4 and 9 in the code)
          MaxExisting,
          Legacy,
          Gen, GenHashes \* Gen: structured initial states over the hash rows GenHashes (a sequence of hash values)

NoHashes == <<>>
WrapHashes == <<65534, 65535, 0>>      \* (cfg: CONSTANT GenHashes <- WrapHashes)

VARIABLES existing, fits, chk, chk0, pc, result, iters

vars == <<existing, fits, chk, chk0, pc, result, iters>>

F == <<"F">>
L(i) == <<"L", i>>
H(c, j) == <<"H", c, j>>
Universe == {F} \cup {L(i) : i \in 1..NL} \cup {H(c, j) : c \in 0..(HMAX - 1), j \in 1..NH}

Min(S) == CHOOSE x \in S : \A y \in S : x <= y
\* ShortNameGenerator::generate for the current hash; "none" = Err(AlreadyExists)
Generate ==
   LET freeL == {i \in 1..NL : L(i) \notin existing}
       freeH == {j \in 1..NH : H(chk, j) \notin existing}
       takenL == Cardinality({i \in 1..NL : L(i) \in existing})
   IN IF fits /\ F \notin existing THEN F
      ELSE IF "bit_count" \in Legacy /\ takenL < NL THEN L(takenL + 1)
      ELSE IF freeL # {} THEN L(Min(freeL))
      ELSE IF freeH # {} THEN H(chk, Min(freeH))
      ELSE <<"none">>

\* the structured family replayed on the code: the PREFIX~i row full or lacking one tail; each hash row empty, full or lacking one tail
RowChoices(c) == {{}} \cup {{H(c, j) : j \in 1..NH}} \cup {{H(c, j) : j \in (1..NH) \ {k}} : k \in 1..NH}
LChoices == {{L(i) : i \in 1..NL}} \cup {{L(i) : i \in (1..NL) \ {k}} : k \in 1..NL}
RECURSIVE RowsUnion(_, _)
RowsUnion(k, pick) == IF k = 0 THEN {} ELSE pick[k] \cup RowsUnion(k - 1, pick)

Init ==
   /\ IF Gen
      THEN \E ls \in LChoices : \E pick \in [1..Len(GenHashes) -> UNION {RowChoices(GenHashes[k]) : k \in 1..Len(GenHashes)}] :
              /\ \A k \in 1..Len(GenHashes) : pick[k] \in RowChoices(GenHashes[k])
              /\ existing = ls \cup RowsUnion(Len(GenHashes), pick)
      ELSE existing \in {S \in SUBSET Universe : Cardinality(S) <= MaxExisting}
   /\ fits \in (IF Gen THEN {FALSE} ELSE BOOLEAN)
   /\ chk0 \in (IF Gen THEN {GenHashes[1], GenHashes[2]} ELSE 0..(HMAX - 1))
   /\ chk = chk0 /\ pc = "scan" /\ result = <<"none">> /\ iters = 0

\* check_for_existence: scan (bitmaps for the current hash), generate; on failure next_iteration and scan again
Try ==
   /\ pc = "scan"
   /\ LET g == Generate IN
      IF g # <<"none">> THEN pc' = "done" /\ result' = g /\ UNCHANGED <<chk, iters>>
      ELSE /\ chk' = (IF "saturate" \in Legacy THEN (IF chk = HMAX - 1 THEN chk ELSE chk + 1) ELSE (chk + 1) % HMAX)
           /\ iters' = (IF iters > HMAX THEN iters ELSE iters + 1) /\ UNCHANGED <<pc, result>>
   /\ UNCHANGED <<existing, fits, chk0>>
   /\ (Gen /\ pc' = "done" => PrintT(<<"PROG", ToJson([existing |-> existing, chk0 |-> chk0, alias |-> result'])>>))
Next == Try
Spec == Init /\ [][Next]_vars /\ WF_vars(Next)

InUniverse(r) == r = F \/ (r[1] = "L" /\ r[2] \in 1..NL) \/ (r[1] = "H" /\ r[2] \in 0..(HMAX - 1) /\ r[3] \in 1..NH)
Unique == pc = "done" => result \notin existing /\ InUniverse(result)
Bounded == iters <= HMAX
Terminates == <>(pc = "done")
=============================================================================
