------------------------------- MODULE FileB -------------------------------
(***************************************************************************)
(* Layer B for file I/O: the cursor machine of file.rs, written the way    *)
(* the code is written, over a small allocation table with data cells.     *)
(*                                                                         *)
(*   fat   : cluster -> 0 (free) | -1 (end of chain) | next cluster        *)
(*   data  : cluster -> CS cells (a cell stands for a block of bytes)      *)
(*   ent   : [cl, sz]  the directory entry of the file on the medium       *)
(*   oth   : [cl, sz]  a second file (closed), which fragments the table   *)
(*   h     : the File object: first (first_cluster), cur (current_cluster),*)
(*           off (offset), and the entry editor: sz, ecl, dirty            *)
(*   bytes, pos : the reference of C02, a growable array with a cursor     *)
(*                                                                         *)
(* Actions: File::read / write / seek / truncate / flush, close + reopen,  *)
(* and appends / truncation of the other file.  TLC checks on every        *)
(* reachable state that the representation invariant of the cursor holds   *)
(* (current_cluster is the cluster holding byte off-1), that the chain has *)
(* exactly ceil(size / cluster) clusters, that the cells of the chain are  *)
(* the reference array (C02), that the two files share nothing and no      *)
(* cluster is lost (C03 through the handle, D-F20), that the cached free   *)
(* count is exact (C05), that a flushed handle has written its entry (C04) *)
(* and that every result is one the reference allows.                      *)
(* Legacy switches on historical / seeded behaviours; TLC refutes each.    *)
(* With Gen = TRUE every transition of the state graph is printed as a     *)
(* program with the model's prediction after every call (MC binding).      *)
(***************************************************************************)
EXTENDS Integers, Sequences, FiniteSets, SequencesExt, TLC, Fat, Json

CONSTANTS N,        \* data clusters 2..N+1
          CS,       \* cells per cluster
          MaxOps,
          MaxLen,   \* longest transfer asked for, in cells
          Legacy,   \* subset of {"seek_floor", "trunc_keep_first", "seek_from_current", "size_only_on_flush_grow", "trunc_after_next"}
          Gen

VARIABLES fat, data, ent, oth, h, hint, free, bytes, pos, op, res, chk, nops, hist

st == <<fat, data, ent, oth, h, hint, free, bytes, pos>>
vars == <<fat, data, ent, oth, h, hint, free, bytes, pos, op, res, chk, nops, hist>>

Cl == 2..(N + 1)
Min2(a, b) == IF a < b THEN a ELSE b
Cfb(b) == (b + CS - 1) \div CS                 \* clusters_from_bytes: rounds up

RECURSIVE ChainF(_, _, _)
ChainF(f, c, fuel) == IF c \notin Cl \/ fuel = 0 \/ f[c] = 0 THEN <<>>
                      ELSE IF f[c] = -1 THEN <<c>> ELSE <<c>> \o ChainF(f, f[c], fuel - 1)
Chain(c) == ChainF(fat, c, N + 1)
NxtOf(f, c) == IF f[c] = -1 \/ f[c] = 0 THEN 0 ELSE f[c]        \* cluster_iter(c).next()
Used == {c \in Cl : fat[c] # 0}

\* alloc_cluster(prev): hinted first fit with wrap; result [c, fat, hint, free], c = 0 when nothing is free
AllocIn(f, hn, fr, prev) ==
   LET used == {c \in Cl : f[c] # 0}
       c == FirstFreeFrom(used, N, hn)
   IN IF c = 0 THEN [c |-> 0, fat |-> f, hint |-> hn, free |-> fr]
      ELSE [c |-> c, fat |-> [x \in Cl |-> IF x = c THEN -1 ELSE IF x = prev THEN c ELSE f[x]],
            hint |-> IF c + 1 <= N + 1 THEN c + 1 ELSE 2, free |-> fr - 1]
FreeFrom(f, c) == LET ch == ChainF(f, c, N + 1) IN [x \in Cl |-> IF x \in ToSet(ch) THEN 0 ELSE f[x]]

Init ==
   /\ fat = [c \in Cl |-> 0]
   /\ data = [c \in Cl |-> [j \in 1..CS |-> 0]]
   /\ ent = [cl |-> 0, sz |-> 0] /\ oth = [cl |-> 0, sz |-> 0]
   /\ h = [first |-> 0, cur |-> 0, off |-> 0, sz |-> 0, ecl |-> 0, dirty |-> FALSE]
   /\ hint = 2 /\ free = N
   /\ bytes = <<>> /\ pos = 0
   /\ op = [op |-> "init"] /\ res = [k |-> "ok"] /\ chk = TRUE /\ nops = 0 /\ hist = <<>>

\* bookkeeping of every call: the result, whether the reference allows it, and (generator) the prediction after the call
Done(o, r, ok) ==
   /\ op' = o /\ res' = r /\ chk' = ok /\ nops' = nops + 1
   /\ hist' = Append(hist, [op |-> o, res |-> r, fat |-> fat', ent |-> ent', oth |-> oth', hint |-> hint', free |-> free'])
   /\ (Gen => PrintT(<<"PROG", ToJson(hist')>>))

(* ---------------- File::write (one call: at most up to the end of the cluster) ---------------- *)
\* the values written are a function of what the reference holds at that place, so that equal states stay equal
NewVal(i) == ((IF i <= Len(bytes) THEN bytes[i] ELSE 0) % 3) + 1
Write(n) ==
   LET o == [op |-> "write", n |-> n]
       offc == h.off % CS
       wsz == Min2(n, CS - offc)
   IN IF wsz = 0 THEN UNCHANGED st /\ Done(o, [k |-> "ok", n |-> 0], n = 0)
      ELSE LET atb == offc = 0
               nextc == IF h.cur = 0 THEN h.first ELSE NxtOf(fat, h.cur)
               need == atb /\ nextc = 0
               a == AllocIn(fat, hint, free, h.cur)
           IN IF need /\ a.c = 0
              THEN UNCHANGED st /\ Done(o, [k |-> "err", e |-> "NotEnoughSpace"], free = 0)
              ELSE LET c == IF ~atb THEN h.cur ELSE IF nextc # 0 THEN nextc ELSE a.c
                       noff == h.off + wsz
                       vals == [j \in 1..wsz |-> NewVal(pos + j)]
                   IN /\ fat' = (IF need THEN a.fat ELSE fat)
                      /\ hint' = (IF need THEN a.hint ELSE hint)
                      /\ free' = (IF need THEN a.free ELSE free)
                      /\ data' = [data EXCEPT ![c] = [j \in 1..CS |-> IF j > offc /\ j <= offc + wsz THEN vals[j - offc] ELSE @[j]]]
                      /\ h' = [h EXCEPT !.first = (IF need /\ @ = 0 THEN a.c ELSE @),
                                        !.ecl = (IF need /\ h.first = 0 THEN a.c ELSE @),
                                        !.cur = c, !.off = noff,
                                        !.sz = (IF noff > @ THEN noff ELSE @), !.dirty = TRUE]
                      /\ bytes' = [i \in 1..(IF pos + wsz > Len(bytes) THEN pos + wsz ELSE Len(bytes)) |->
                                     IF i > pos /\ i <= pos + wsz THEN vals[i - pos] ELSE bytes[i]]
                      /\ pos' = pos + wsz
                      /\ UNCHANGED <<ent, oth>>
                      /\ Done(o, [k |-> "ok", n |-> wsz], wsz > 0 /\ wsz <= n)

(* ---------------- File::read (one call) ---------------- *)
Read(n) ==
   LET o == [op |-> "read", n |-> n]
       cur0 == IF h.off % CS = 0 THEN (IF h.cur = 0 THEN h.first ELSE NxtOf(fat, h.cur)) ELSE h.cur
       offc == h.off % CS
       rsz == IF cur0 = 0 THEN 0 ELSE Min2(n, Min2(CS - offc, h.sz - h.off))
       kmax == Min2(n, Len(bytes) - pos)              \* the most the reference can deliver
   IN IF rsz <= 0 THEN UNCHANGED st /\ Done(o, [k |-> "ok", n |-> 0, d |-> <<>>], kmax = 0)
      ELSE LET d == [j \in 1..rsz |-> data[cur0][offc + j]] IN
           /\ h' = [h EXCEPT !.off = @ + rsz, !.cur = cur0]
           /\ pos' = pos + rsz
           /\ UNCHANGED <<fat, data, ent, oth, hint, free, bytes>>
           /\ Done(o, [k |-> "ok", n |-> rsz, d |-> d], rsz <= kmax /\ d = SubSeq(bytes, pos + 1, pos + rsz))

(* ---------------- File::seek ---------------- *)
Seek(from, x) ==
   LET o == [op |-> "seek", from |-> from, x |-> x]
       want == CASE from = "start" -> x [] from = "cur" -> h.off + x [] OTHER -> h.sz + x
       rwant == CASE from = "start" -> x [] from = "cur" -> pos + x [] OTHER -> Len(bytes) + x
       rnew == Min2(rwant, Len(bytes))
       CfbL(b) == IF "seek_floor" \in Legacy THEN b \div CS ELSE Cfb(b)
   IN IF want < 0 THEN UNCHANGED st /\ Done(o, [k |-> "err", e |-> "InvalidInput"], rwant < 0)
      ELSE LET new0 == Min2(want, h.sz) IN
           IF new0 = h.off THEN UNCHANGED st /\ Done(o, [k |-> "ok", pos |-> h.off], rwant >= 0 /\ rnew = h.off)
           ELSE LET nc == CfbL(new0)
                    oc == CfbL(h.off)
                    fromCur == "seek_from_current" \in Legacy /\ new0 > h.off /\ h.cur # 0
                    ch == IF fromCur THEN Chain(h.cur) ELSE Chain(h.first)
                    want_i == IF fromCur THEN nc - (h.off \div CS) ELSE nc      \* (the cursor's cluster index taken from off / CS: one short on a boundary)
                    r == IF new0 = 0 THEN [c |-> 0, off |-> 0]
                         ELSE IF nc = oc THEN [c |-> h.cur, off |-> new0]
                         ELSE IF h.first # 0
                              THEN (IF Len(ch) >= want_i /\ want_i >= 1 THEN [c |-> ch[want_i], off |-> new0]
                                    ELSE [c |-> ch[Len(ch)], off |-> Len(ch) * CS])
                              ELSE [c |-> 0, off |-> 0]
                IN /\ h' = [h EXCEPT !.cur = r.c, !.off = r.off]
                   /\ pos' = rnew
                   /\ UNCHANGED <<fat, data, ent, oth, hint, free, bytes>>
                   /\ Done(o, [k |-> "ok", pos |-> r.off], rwant >= 0 /\ r.off = rnew)

(* ---------------- File::truncate ---------------- *)
Truncate ==
   LET o == [op |-> "truncate"] IN
   /\ IF h.cur # 0
      THEN LET ch == Chain(IF "trunc_after_next" \in Legacy /\ NxtOf(fat, h.cur) # 0 THEN NxtOf(fat, h.cur) ELSE h.cur)
               keep == ch[1]
           IN /\ fat' = [x \in Cl |-> IF x = keep THEN -1 ELSE IF x \in ToSet(ch) THEN 0 ELSE fat[x]]
              /\ free' = free + Len(ch) - 1
              /\ h' = [h EXCEPT !.sz = h.off, !.ecl = (IF h.off = 0 THEN 0 ELSE @), !.dirty = TRUE]
      ELSE /\ fat' = (IF h.first # 0 THEN FreeFrom(fat, h.first) ELSE fat)
           /\ free' = free + Len(Chain(h.first))
           /\ h' = [h EXCEPT !.sz = h.off, !.ecl = (IF h.off = 0 THEN 0 ELSE @), !.dirty = TRUE,
                             !.first = (IF "trunc_keep_first" \in Legacy THEN @ ELSE 0)]
   /\ bytes' = SubSeq(bytes, 1, pos)
   /\ UNCHANGED <<data, ent, oth, hint, pos>>
   /\ Done(o, [k |-> "ok"], TRUE)

(* ---------------- File::flush, and close + open again ---------------- *)
EntryOf(hh) == [cl |-> hh.ecl, sz |-> hh.sz]
Flush ==
   /\ ent' = (IF h.dirty THEN EntryOf(h) ELSE ent)
   /\ h' = [h EXCEPT !.dirty = FALSE]
   /\ UNCHANGED <<fat, data, oth, hint, free, bytes, pos>>
   /\ Done([op |-> "flush"], [k |-> "ok"], TRUE)
Reopen ==
   LET e == IF h.dirty THEN EntryOf(h) ELSE ent IN
   /\ ent' = e
   /\ h' = [first |-> e.cl, cur |-> 0, off |-> 0, sz |-> e.sz, ecl |-> e.cl, dirty |-> FALSE]
   /\ pos' = 0
   /\ UNCHANGED <<fat, data, oth, hint, free, bytes>>
   /\ Done([op |-> "reopen"], [k |-> "ok"], TRUE)

(* ---------------- the other file: one cluster appended (open, seek to the end, write, close), or emptied ---------------- *)
OtherAppend ==
   LET och == Chain(oth.cl)
       a == AllocIn(fat, hint, free, IF och = <<>> THEN 0 ELSE och[Len(och)])
   IN IF a.c = 0 THEN UNCHANGED st /\ Done([op |-> "oappend"], [k |-> "err", e |-> "NotEnoughSpace"], free = 0)
      ELSE /\ fat' = a.fat /\ hint' = a.hint /\ free' = a.free
           /\ oth' = [cl |-> IF oth.cl = 0 THEN a.c ELSE oth.cl, sz |-> oth.sz + CS]
           /\ data' = [data EXCEPT ![a.c] = [j \in 1..CS |-> 9]]
           /\ UNCHANGED <<ent, h, bytes, pos>>
           /\ Done([op |-> "oappend"], [k |-> "ok"], TRUE)
OtherEmpty ==
   /\ oth.cl # 0
   /\ fat' = FreeFrom(fat, oth.cl)
   /\ free' = free + Len(Chain(oth.cl))
   /\ oth' = [cl |-> 0, sz |-> 0]
   /\ UNCHANGED <<data, ent, h, hint, bytes, pos>>
   /\ Done([op |-> "oempty"], [k |-> "ok"], TRUE)

SeekArgs == {<<"start", x>> : x \in 0..(2 * CS + 2)} \cup {<<"cur", x>> : x \in {-CS - 1, -1, 1, CS}} \cup {<<"end", x>> : x \in {-CS - 1, -1, 0, 1}}

Next ==
   /\ nops < MaxOps
   /\ \/ \E n \in 0..MaxLen : Write(n) \/ Read(n)
      \/ \E a \in SeekArgs : Seek(a[1], a[2])
      \/ Truncate \/ Flush \/ Reopen \/ OtherAppend \/ OtherEmpty

Spec == Init /\ [][Next]_vars

View == <<fat, data, ent, oth, h, hint, free, bytes, pos, nops >= MaxOps>>

(* ---------------- invariants ---------------- *)
FChain == Chain(h.first)
OChain == Chain(oth.cl)
Ended(ch) == ch = <<>> \/ fat[ch[Len(ch)]] = -1
\* current_cluster is None exactly at offset 0, else the cluster that holds byte off-1 ("between clusters: the previous one")
RepInv == /\ (h.off = 0) <=> (h.cur = 0)
          /\ h.off <= h.sz
          /\ h.off > 0 => (Cfb(h.off) <= Len(FChain) /\ h.cur = FChain[Cfb(h.off)])
          /\ h.ecl = h.first
\* C03 through the handle (the entry on the medium may lag: D-F20): chain length matches the size, proper end
SizeChain == Len(FChain) = Cfb(h.sz) /\ Ended(FChain) /\ (h.first = 0 <=> h.sz = 0)
             /\ Len(OChain) * CS = oth.sz /\ Ended(OChain)
\* C02: the cells of the chain up to the size are the reference array, the cursors agree
Content == /\ h.sz = Len(bytes)
           /\ h.sz <= Len(FChain) * CS
              => [i \in 1..h.sz |-> data[FChain[((i - 1) \div CS) + 1]][((i - 1) % CS) + 1]] = bytes
PosOk == h.off = pos
\* C03 / C05: nothing shared, nothing lost, count exact, hint inside the table
Ownership == /\ ToSet(FChain) \cap ToSet(OChain) = {}
             /\ Used = ToSet(FChain) \cup ToSet(OChain)
             /\ Cardinality(ToSet(FChain)) = Len(FChain)
             /\ free = N - Cardinality(Used)
             /\ hint \in Cl
\* C04: once flushed, the entry on the medium says what the handle says
Flushed == ~h.dirty => ent = [cl |-> h.first, sz |-> h.sz]
ResultsOk == chk
=============================================================================
