SPECIFICATION Spec
CONSTANT FoldTab <- EmptyFold
CONSTANT MaxOps = 4
CONSTANT MaxNodes = 5
CONSTANT Gen = FALSE
INVARIANT WellFormed
INVARIANT ErrorsAreDocumented
VIEW View
CHECK_DEADLOCK FALSE
