------------------------------- MODULE FatFsA -------------------------------
(***************************************************************************)
(* Layer A: the contract.  Everything the properties say about the raw     *)
(* volume, as operators over the projection `raw` (decoder output) and its *)
(* derived tables.  State the properties leave free (which cluster, which  *)
(* slot, which alias) is observed here, never predicted.                   *)
(*                                                                         *)
(* raw = [g (geometry), st (status byte), fi (FSInfo), fats, dirs]          *)
(***************************************************************************)
EXTENDS Integers, Sequences, FiniteSets, SequencesExt, TLC, TreeModel, Fat, DirSlots, Stamps

(* ---------------- derived tables ---------------- *)
FatView(raw, k) ==
   LET f == raw.fats[k] IN [ft |-> raw.g.ft, n |-> raw.g.n, m |-> f.m, used |-> f.used, bad |-> f.bad]
ActiveFat(raw) == FatView(raw, raw.g.act + 1)

DirIdx(raw, id) == CHOOSE k \in 1..Len(raw.dirs) : raw.dirs[k].id = id

\* the name a reader shows for a decoded entry: the long name of a valid run, else the 8.3 form
EntryName(oem, e) == IF e.cls = "valid" THEN e.long ELSE OemDecode(oem, ShortDisplayNt(e.s.n, e.s.nt))
\* fold keys under which the entry is found: long name (if any) and the upper-case 8.3 form
EntryKeys(oem, e) == (IF e.cls = "valid" THEN {Key(e.long)} ELSE {}) \cup {Key(OemDecode(oem, ShortDisplay(e.s.n)))}

EntryAt(ents, i) == ents[CHOOSE j \in 1..Len(ents) : ents[j].i = i]

RECURSIVE DirPath(_, _, _, _, _)
DirPath(raw, ents, oem, k, fuel) ==      \* path of names (as a reader shows them) of directory k
   IF raw.dirs[k].par = -1 \/ fuel = 0 THEN <<>>
   ELSE LET pk == DirIdx(raw, raw.dirs[k].par)
            pe == EntryAt(ents[pk], raw.dirs[k].ps)
        IN Append(DirPath(raw, ents, oem, pk, fuel - 1), EntryName(oem, pe))

\* Derive(raw): tables computed once per projection.
\*   rows  = one record per live entry (no volume labels, no dot entries): [dk, e, name, p, w]
\*   facts = {[p, k, d]}  the tree a reader must see (Abs(raw)), comparable with TreeModel!TreeFacts
\*   meta  = {<<p, size, first cluster>>}      times = {<<p, ct, mt, ad>>} files / {<<p, ct>>} directories
Derive(raw, oem) ==
   LET nd == Len(raw.dirs)
       ents == TLCEval([k \in 1..nd |-> Entries(raw.dirs[k].sl)])
       paths == TLCEval([k \in 1..nd |-> DirPath(raw, ents, oem, k, 32)])
       F == ActiveFat(raw)
       rows == TLCEval(FlattenSeq([k \in 1..nd |->
                 LET live == SelectSeq(ents[k], LAMBDA e : ~e.vol /\ e.dot = 0 /\ ~AmbiguousAttr(e.s)) IN
                 [j \in 1..Len(live) |->
                    LET e == live[j] nm == EntryName(oem, e) IN
                    [dk |-> k, e |-> e, name |-> nm, p |-> Append(paths[k], nm),
                     key |-> Key(nm), skey |-> Key(OemDecode(oem, ShortDisplay(e.s.n))),
                     w |-> ChainOf(F, IF e.s.cl < 0 THEN 1 ELSE e.s.cl)]]]))
       n == Len(rows)
   IN [F |-> F, ents |-> ents, paths |-> paths, rows |-> rows,
       facts |-> {[p |-> rows[i].p, k |-> IF rows[i].e.dir THEN "d" ELSE "f",
                   d |-> IF rows[i].e.dir THEN <<>> ELSE (IF "fd" \in DOMAIN rows[i].e.s THEN rows[i].e.s.fd ELSE <<>>)] : i \in 1..n},
       meta |-> {<<rows[i].p, rows[i].e.s.sz, rows[i].e.s.cl>> : i \in 1..n},
       times |-> {IF rows[i].e.dir THEN <<rows[i].p, DecodeCreated(rows[i].e.s.ct)>>
                  ELSE <<rows[i].p, DecodeCreated(rows[i].e.s.ct), DecodeModified(rows[i].e.s.mt), DecodeDate(rows[i].e.s.ad)>> : i \in 1..n},
       kinds |-> [k \in 1..nd |-> [i \in 1..Len(raw.dirs[k].sl) |-> raw.dirs[k].sl[i].t]]]

CsCells(raw) == raw.g.csc                        \* cluster size in cells
ClustersFor(raw, cells) == (cells + CsCells(raw) - 1) \div CsCells(raw)

(***************************************************************************)
(* C03: structural invariants.  `lag` = set of paths (fold-key sequences)  *)
(* of files whose directory entry may lag behind because a handle with     *)
(* unflushed changes exists (deferred write-back, finding F20); lagCells = *)
(* function path -> current size in cells of those files.                  *)
(* Result: set of violated tags.                                           *)
(***************************************************************************)
IsFat32(raw) == raw.g.ft = 32
RootIsChain(raw) == IsFat32(raw)

StructViol(raw, D, lag, lagCells) ==
   LET F == D.F
       rows == D.rows
       strict == SelectSeq(rows, LAMBDA r : r.p \notin lag)
       rootW == IF RootIsChain(raw) THEN <<Walk(F, raw.g.rootc)>> ELSE <<>>
       owners == [i \in 1..Len(strict) |-> strict[i].w] \o rootW
       lost == LostSet(F, owners)
       lagNeed == FoldLeft(LAMBDA acc, p : acc + ClustersFor(raw, lagCells[p]), 0, SetToSeq(lag))
       nd == Len(raw.dirs)
       Tag(t, ok) == IF ok THEN {} ELSE {t}
   IN
     Tag("C03.fat_range", LinksInRange(F))
   \cup Tag("C03.fat_cycle", AllTerminated(owners))
   \cup Tag("C03.crosslink", NoCrossLink(owners))
   \cup Tag("C03.lost", Cardinality(lost) = lagNeed)
   \cup Tag("C03.chain_size",
        \A i \in 1..Len(strict) :
           LET r == strict[i] IN
           IF r.e.dir THEN Len(r.w.ch) >= 1
           ELSE (r.e.s.sz >= 0 /\ Len(r.w.ch) * raw.g.cs >= r.e.s.sz /\ (Len(r.w.ch) - 1) * raw.g.cs < r.e.s.sz)
                \/ (r.e.s.sz = 0 /\ r.w.ch = <<>>))
   \cup Tag("C03.empty_owns_none",
        \A i \in 1..Len(strict) : (~strict[i].e.dir /\ strict[i].e.s.sz = 0) => strict[i].e.s.cl = 0)
   \cup Tag("C03.dot",
        \A k \in 1..nd : raw.dirs[k].par # -1 =>
           LET es == D.ents[k] IN
           Len(es) >= 1 /\ es[1].i = 1 /\ es[1].dot = 1 /\ es[1].dir /\ es[1].s.cl = raw.dirs[k].id)
   \cup Tag("C03.dotdot",
        \A k \in 1..nd : raw.dirs[k].par # -1 =>
           LET es == D.ents[k]
               pid == raw.dirs[k].par
               \* the parent's cluster, 0 when the parent is the root (also on FAT32)
               want == IF raw.dirs[DirIdx(raw, pid)].par = -1 THEN 0 ELSE pid
           IN Len(es) >= 2 /\ es[2].i = 2 /\ es[2].dot = 2 /\ es[2].dir /\ es[2].s.cl = want)
   \cup Tag("C03.dot_only_first",
        \A k \in 1..nd : \A j \in 1..Len(D.ents[k]) :
           D.ents[k][j].dot # 0 => (raw.dirs[k].par # -1 /\ D.ents[k][j].i = D.ents[k][j].dot))
   \cup Tag("C03.after_end", \A k \in 1..nd : raw.dirs[k].tz)
   \cup (IF \A k \in 1..nd : NoOrphanRuns(raw.dirs[k].sl)
                              /\ \A j \in 1..Len(D.ents[k]) :
                                    LET e == D.ents[k][j] IN
                                    e.cls = "none" \/ (e.cls = "valid" /\ e.i - e.first = (Len(e.long) + 12) \div 13)
         THEN {}     \* every run is complete, ordered, checksummed, regularly and minimally padded
         ELSE   Tag("C03.lfn_orphan", \A k \in 1..nd : NoOrphanRuns(raw.dirs[k].sl))
           \cup Tag("C03.lfn_order", \A k \in 1..nd : RunsOrdered(raw.dirs[k].sl))
           \cup Tag("C03.lfn_chk", \A k \in 1..nd : RunsChecksummed(raw.dirs[k].sl))
           \cup Tag("C03.lfn_pad", \A k \in 1..nd : RunsPadded(raw.dirs[k].sl)))
   \cup Tag("C03.dup_long",
        \A k \in 1..nd :
           LET rs == SelectSeq(rows, LAMBDA r : r.dk = k) IN
           Cardinality({rs[i].key : i \in 1..Len(rs)}) = Len(rs))
   \cup Tag("C03.dup_short",
        \A k \in 1..nd :
           LET rs == SelectSeq(rows, LAMBDA r : r.dk = k) IN
           Cardinality({rs[i].e.s.n : i \in 1..Len(rs)}) = Len(rs))
   \cup Tag("C03.dup_cross",      \* no long name equal (ignoring case) to another entry's 8.3 name
        \A k \in 1..nd :
           LET rs == SelectSeq(rows, LAMBDA r : r.dk = k) IN
           \A i, j \in 1..Len(rs) : i # j =>
              rs[i].e.cls # "valid" \/ rs[j].skey # rs[i].key)

(***************************************************************************)
(* Abs(raw): the tree a reader must see, as facts comparable with          *)
(* TreeModel!TreeFacts.                                                     *)
(***************************************************************************)
AbsFacts(D) == D.facts

(***************************************************************************)
(* C05 space contract                                                      *)
(***************************************************************************)
\* may a call that needs `sp` (TreeModel space record) legitimately report NotEnoughSpace in raw?
\* dpath = fold-key path of the directory receiving the entry
SpaceShort(raw, D, dpath, sp) ==
   LET free == FreeCount(D.F)
       ks == {k \in 1..Len(raw.dirs) : D.paths[k] = dpath}
   IN \/ free < sp.clusters
      \/ (ks # {} /\ LET k == CHOOSE x \in ks : TRUE IN
                     raw.dirs[k].par = -1 /\ ~IsFat32(raw) /\ ~HasFreeRun(raw.dirs[k].sl, raw.dirs[k].cap, sp.slots))

(***************************************************************************)
(* C10: table copies                                                       *)
(***************************************************************************)
FatCopyEq(a, b) == a.m = b.m /\ a.hm = b.hm /\ a.bad = b.bad /\ a.e0 = b.e0 /\ a.e1 = b.e1
                   /\ a.e0h = b.e0h /\ a.e1h = b.e1h /\ a.padx = b.padx /\ a.padz = b.padz
MirrorsEqual(raw) == \A i, j \in 1..Len(raw.fats) : FatCopyEq(raw.fats[i], raw.fats[j])
=============================================================================
