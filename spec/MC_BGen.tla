------------------------------ MODULE MC_BGen ------------------------------
(***************************************************************************)
(* Behaviours of Layer B (FatFsB) with realistic constants, generated with *)
(* TLC's simulation mode, each printed with the state the model predicts   *)
(* after every call (slots of every directory, the table, the hint).  The  *)
(* behaviours are replayed on the real library and TraceB compares the     *)
(* predicted with the observed raw image: this binds the model that TLC    *)
(* explores exhaustively (at small constants) to the code.                 *)
(***************************************************************************)
EXTENDS FatFsB, Json

VARIABLE hist
CONSTANT Grow          \* TRUE: no call that frees space in the first two thirds of a behaviour (drives the volume full)

RECURSIVE DPath(_, _)
DPath(d, fuel) ==
   IF IsRoot(d) \/ fuel = 0 THEN <<>>
   ELSE LET par == CHOOSE e \in Entries : e.s.kind = "d" /\ e.s.cl = d IN Append(DPath(par.d, fuel - 1), par.s.n)

GInit == Init /\ hist = <<>>
GNext ==
   /\ Next
   /\ (res' # "NotFound" \/ nops % 6 = 5)          \* mostly calls that do something
   /\ (Grow /\ 3 * nops < 2 * MaxOps => op'.op \notin {"remove", "truncate"})
   /\ (Grow /\ nops % 2 = 1 => op'.op \in {"append", "create_dir"} /\ res' \in {"ok", "NotEnoughSpace"})
   \* simulation mode picks uniformly among successor states, and most successors are renames and creations (many argument
   \* combinations): thin them out so that removals, truncations and handle calls get their share
   /\ (op'.op = "rename" => RandomElement(1..10) = 1)
   /\ (op'.op \in {"create_file", "create_dir"} => RandomElement(1..4) = 1)
   /\ ("handles" \in Features /\ ~Grow /\ nops % 3 = 1 /\ DOMAIN hs = {} /\ (\E e \in Entries : e.s.kind = "f") => op'.op = "open" /\ res' = "ok")
   /\ ("handles" \in Features /\ nops % 3 = 2 /\ DOMAIN hs # {} => op'.op \in {"hwrite", "htrunc", "hflush", "hclose"})
   /\ hist' = Append(hist, [op |-> op', res |-> res',
                            \* paths of the directories the call names, evaluated before the call
                            dp |-> IF "d" \in DOMAIN op' THEN DPath(op'.d, N + 1) ELSE <<>>,
                            dp2 |-> IF "d2" \in DOMAIN op' THEN DPath(op'.d2, N + 1) ELSE <<>>,
                            dirs |-> [x \in DOMAIN dirs' |-> dirs'[x]],
                            ids |-> SetToSeq(DOMAIN dirs'),
                            fat |-> [c \in Cl |-> fat'[c]], hint |-> hint'])
GSpec == GInit /\ [][GNext]_<<vars, hist>>

\* printed once per behaviour, when the bound is reached
Emit == nops = MaxOps => PrintT(<<"BPROG", ToJson(hist)>>)
=============================================================================
