----------------------------- MODULE TraceFatFs -----------------------------
(***************************************************************************)
(* Trace validation of API-level executions of the real library against    *)
(* Layer A (FatFsA) and the reference tree (TreeModel), monitor style:     *)
(* every event is consumed, every tagged clause is evaluated on it, each   *)
(* false clause is printed as <<"VIOL", tag, program, event>>.  After the  *)
(* first violation in a program the rest of that program is skipped (the   *)
(* model state can no longer be trusted); the next program starts afresh.  *)
(***************************************************************************)
EXTENDS Integers, Sequences, FiniteSets, SequencesExt, TLC, Json, IOUtils, FatFsA

VARIABLES l, st

Rec == ndJsonDeserialize(IOEnv.TRACE)
FoldTabDef == IF IOEnv.FOLD = "ascii" THEN <<>> ELSE JsonDeserialize(IOEnv.FOLDTAB)

Has(e, k) == k \in DOMAIN e
\* tags are strings "Cxx.name": test the property prefix (TLC has no substring operator; compare against the tag registry)
FatalTags == {"C00.panic", "C00.hang", "C00.mount", "C01.result", "C01.tree_after", "C01.atomic_on_error", "C01.list", "C01.list_dots",
              "C02.read_len", "C02.read_bytes", "C02.write_len", "C02.seek", "C02.truncate", "C02.flush",
              "C15.accept", "C15.lookup_hit", "C15.lookup_miss", "C15.no_side_effect"}
\* (not fatal: C04.decode / C04.remount / C04.extents / C15.lossless compare the medium with the model and leave the model as certain as it
\*  was; the program goes on, so that what the damaged medium does to later calls is still judged)
SubSeqStr(t, pfx) == t \in FatalTags
Get(e, k, dflt) == IF k \in DOMAIN e THEN e[k] ELSE dflt
\* a byte sequence without its trailing spaces (volume_label_as_bytes)
RTrimSp(b) == LET keep == {i \in 1..Len(b) : b[i] # 32} IN IF keep = {} THEN <<>> ELSE SubSeq(b, 1, CHOOSE i \in keep : \A j \in keep : j <= i)
Tag(t, ok) == IF ok THEN {} ELSE {t}

MutatingOps == {"create_file", "create_dir", "remove", "rename", "write", "write_all", "truncate", "flush", "close",
                "close_all", "set_created", "set_modified", "set_accessed", "unmount", "dropfs", "mount"}
ReadOnlyOps == {"mount", "open_file", "open_dir", "list", "read", "read_all", "seek", "extents", "stats", "status", "info",
                "close", "closedir", "close_all", "unmount", "dropfs", "clock", "abandon", "end"}

(* ---------------- initial state of a program ---------------- *)
Oem(cfg) == IF Has(cfg, "oem") THEN cfg.oem ELSE "lossy"

\* model tree of the initial volume: taken from Abs(raw) (for library-formatted volumes it is empty;
\* for foreign volumes C08 compares it with the builder's ground truth separately)
RECURSIVE SeedNodes(_, _, _, _)
SeedNodes(D, oem, i, acc) ==      \* rows are in breadth-first directory order: parents before children
   IF i > Len(D.rows) THEN acc
   ELSE LET r == D.rows[i]
            pp == SubSeq(r.p, 1, Len(r.p) - 1)
            par == IF pp = <<>> THEN 0 ELSE (CHOOSE j \in DOMAIN acc.byp : acc.byp[j] = pp)
            id == i
            node == [par |-> par, name |-> r.name, keys |-> EntryKeys(oem, r.e), kind |-> IF r.e.dir THEN "d" ELSE "f",
                     data |-> IF r.e.dir THEN <<>> ELSE Get(r.e.s, "fd", <<>>),
                     ct |-> DecodeCreated(r.e.s.ct), mt |-> DecodeModified(r.e.s.mt), mtAlt |-> DecodeModified(r.e.s.mt), ad |-> DecodeDate(r.e.s.ad)]
        IN SeedNodes(D, oem, i + 1,
             [nodes |-> [x \in DOMAIN acc.nodes \cup {id} |-> IF x = id THEN node ELSE acc.nodes[x]],
              byp |-> [x \in DOMAIN acc.byp \cup {id} |-> IF x = id THEN r.p ELSE acc.byp[x]]])

InitModel(D, oem) ==
   LET s == SeedNodes(D, oem, 1, [nodes |-> <<>>, byp |-> <<>>]) IN
   [nodes |-> s.nodes, next |-> Len(D.rows) + 1, fh |-> <<>>, dh |-> <<>>]

Begin(e) ==
   LET oem == Oem(e.cfg)
       D == Derive(e.raw, oem)
   IN [pid |-> e.pid, dead |-> ~e.raw.ok, pm |-> FALSE, pm12 |-> FALSE, cfg |-> e.cfg, oem |-> oem, m |-> InitModel(D, oem), raw |-> e.raw, D |-> D,
       rv |-> Get(e, "rv", [ok |-> FALSE]), sv |-> <<>>, svok |-> FALSE,
       mounted |-> FALSE, mountSt |-> e.raw.st, changed |-> FALSE, clk |-> e.clk, ro |-> TRUE,
       atime |-> Get(e.cfg, "atime", FALSE), U |-> e.raw.g.cell, fiUsable |-> FALSE, fiW |-> FALSE, fiTrust |-> TRUE, fiBase |-> FALSE, mountRaw |-> e.raw, mountFree |-> FreeCount(D.F),
       dur |-> {}, wl |-> 0, crv |-> [ok |-> FALSE]]

\* C08: a volume made by someone else is read faithfully: what the library lists (fresh mount) and what
\* Abs(raw) decodes both equal the builder's ground truth (names, kinds, attributes, stamps, contents)
TruthFacts(t) == {[p |-> t[i].p, k |-> t[i].k, at |-> t[i].at, d |-> t[i].c, ct |-> t[i].ct, mt |-> t[i].mt, ad |-> t[i].ad] : i \in 1..Len(t)}
\* a volume the library has just formatted itself: the two reserved entries of every table copy carry the media descriptor of the boot
\* sector (low byte of entry 0, all other bits one) and an end-of-chain pattern (C10: "keep the media descriptor and end-of-chain pattern")
FreshTableViol(e) ==
   IF ~(Has(e.cfg, "vol") /\ Has(e.cfg.vol, "kind") /\ e.cfg.vol.kind = "format" /\ e.raw.ok) THEN {}
   ELSE LET max == MaxVal(e.raw.g.ft) IN
        Tag("C10.reserved01", \A k \in 1..Len(e.raw.fats) : e.raw.fats[k].e0 = max - 255 + e.raw.g.media /\ e.raw.fats[k].e1 >= max - 7)
BeginViol(e) ==
   IF ~Has(e, "truth") THEN FreshTableViol(e)
   ELSE LET oem == Oem(e.cfg)
            D == Derive(e.raw, oem)
            want == TruthFacts(e.truth)
            rvT == IF Has(e, "rv") /\ e.rv.ok THEN e.rv.tree ELSE <<>>
            seen == {[p |-> rvT[i].p, k |-> rvT[i].k, at |-> rvT[i].at, d |-> IF rvT[i].k = "f" THEN rvT[i].c ELSE <<>>,
                      ct |-> rvT[i].ct, mt |-> rvT[i].mt, ad |-> rvT[i].ad]
                     : i \in {x \in 1..Len(rvT) : rvT[x].k \in {"f", "d"} /\ ~(rvT[x].sn = <<46>> \/ rvT[x].sn = <<46, 46>>)}}
            abs == {[p |-> D.rows[i].p, k |-> IF D.rows[i].e.dir THEN "d" ELSE "f", at |-> D.rows[i].e.s.at,
                     d |-> IF D.rows[i].e.dir THEN <<>> ELSE Get(D.rows[i].e.s, "fd", <<>>),
                     ct |-> DecodeCreated(D.rows[i].e.s.ct), mt |-> DecodeModified(D.rows[i].e.s.mt), ad |-> DecodeDate(D.rows[i].e.s.ad)]
                    : i \in 1..Len(D.rows)}
        IN Tag("C08.view", Has(e, "rv") /\ e.rv.ok /\ seen = want)
           \cup Tag("C08.decode_truth", abs = want)
           \cup (LET sv == StructViol(e.raw, D, {}, <<>>) IN IF sv = {} THEN {} ELSE {"C08.valid_input"} \cup sv)

Dead == [pid |-> "", dead |-> TRUE]

(* ---------------- views as facts ---------------- *)
IsDotEnt(x) == x.sn = <<46>> \/ x.sn = <<46, 46>>
ViewBad(view) == \E i \in 1..Len(view) : view[i].k = "x"
ViewIdx(view) == {x \in 1..Len(view) : view[x].k \in {"f", "d"} /\ ~IsDotEnt(view[x])}
ViewFacts(view, withData) ==
   {[p |-> view[i].p, k |-> view[i].k, d |-> IF withData /\ view[i].k = "f" THEN view[i].c ELSE <<>>] : i \in ViewIdx(view)}
Blank(facts, paths) == IF paths = {} THEN facts ELSE {IF f.p \in paths THEN [f EXCEPT !.d = <<>>] ELSE f : f \in facts}
NoData(facts) == {[f EXCEPT !.d = <<>>] : f \in facts}

\* times of files as facts <<path, ct, mt, ad>>, directories <<path, ct>>
ViewTimes(view) ==
   {IF view[i].k = "f" THEN <<view[i].p, view[i].ct, view[i].mt, view[i].ad>> ELSE <<view[i].p, view[i].ct>> : i \in ViewIdx(view)}
ModelTimes(m, skip) ==
   {IF m.nodes[i].kind = "f" THEN <<PathOf(m, i, 64), m.nodes[i].ct, m.nodes[i].mt, m.nodes[i].ad>>
    ELSE <<PathOf(m, i, 64), m.nodes[i].ct>>
    : i \in {x \in Ids(m) : PathOf(m, x, 64) \notin skip}}
\* the same with the alternative modification stamp (after a truncate the stamp may or may not have been refreshed)
ModelTimesAlt(m, skip) ==
   {IF m.nodes[i].kind = "f" THEN <<PathOf(m, i, 64), m.nodes[i].ct, m.nodes[i].mtAlt, m.nodes[i].ad>>
    ELSE <<PathOf(m, i, 64), m.nodes[i].ct>>
    : i \in {x \in Ids(m) : PathOf(m, x, 64) \notin skip}}
TimesMatch(seen, m, skip) ==
   LET a == ModelTimes(m, skip) b == ModelTimesAlt(m, skip) IN
   seen = a \/ (seen \subseteq (a \cup b) /\ Cardinality(seen) = Cardinality(a) /\ {t[1] : t \in seen} = {t[1] : t \in a})
TimesSkip(times, skip) == IF skip = {} THEN times ELSE {t \in times : t[1] \notin skip}

(* ---------------- per-op steps: result [m |-> model', v |-> violated tags, ooc |-> BOOLEAN] ---------------- *)
StartNode(s, at) == IF at = "" THEN 0 ELSE IF at \in DOMAIN s.m.dh THEN s.m.dh[at] ELSE -1
Stamp(s) == [ct |-> Trunc10ms(s.clk), mt |-> Trunc2s(s.clk), ad |-> DateOf(s.clk)]

\* verdict on the result of a namespace call with outcome o
NsResult(s, e, o, dpath) ==
   LET r == e.r
       short == o.space.par # -1 /\ SpaceShort(s.raw, s.D, dpath, o.space)
       nameErrs == {"InvalidFileNameLength", "UnsupportedFileNameCharacter"}
       \* C15: the name decides - it must be rejected with a name error / must not be rejected with one
       c15(bad) == IF bad /\ ((o.mand # {} /\ o.mand \subseteq nameErrs) \/ (r.k = "err" /\ r.e \in nameErrs))
                   THEN {"C15.accept"} ELSE {}
   IN IF r.k = "ok" THEN Tag("C01.result", o.mand = {}) \cup c15(o.mand # {})
      ELSE IF r.k = "err" THEN
           IF r.e \in o.mand THEN {}
           ELSE IF r.e = "NotEnoughSpace" /\ o.mand = {} /\ o.space.par # -1 THEN Tag("C05.nospace_legit", short)
           ELSE {"C01.result"} \cup c15(TRUE)
      ELSE {"C01.result"}

\* alias of the entry named nm (units) in the directory with fold path dpath, taken from the post state
AliasRows(D, dpath, nm) == SelectSeq(D.rows, LAMBDA r : r.p = Append(dpath, nm))

AddAliasKey(m, id, D, oem, dpath, nm) ==
   LET rs == AliasRows(D, dpath, nm) IN
   IF rs = <<>> THEN m
   ELSE [m EXCEPT !.nodes[id].keys = @ \cup EntryKeys(oem, rs[1].e)]

\* C16 on a freshly written entry: alias legal, unique in its directory, every LFN slot carries its checksum
AliasViol(D, dpath, nm) ==
   LET rs == AliasRows(D, dpath, nm) IN
   IF rs = <<>> THEN {}      \* the missing entry is reported by the tree comparison
   ELSE LET r == rs[1]
            sib == SelectSeq(D.rows, LAMBDA x : x.dk = r.dk /\ x.e.i # r.e.i)
        IN Tag("C16.legal", LegalShortName(r.e.s.n))
           \cup Tag("C16.unique", \A j \in 1..Len(sib) : sib[j].e.s.n # r.e.s.n)
           \cup Tag("C16.chk_link", r.e.cls = "valid")
           \cup Tag("C15.lossless", r.e.cls = "valid" /\ r.e.long = nm)

NsStep(s, e, Dp) ==
   LET a == e.a
       m == s.m
       start == StartNode(s, Get(a, "at", ""))
       comps == SplitPath(Get(a, "pu", <<>>))
       h == Get(a, "h", "")
   IN
   IF start = -1 THEN [m |-> m, v |-> {}, ooc |-> TRUE]
   ELSE
   CASE e.op \in {"create_file", "create_dir"} ->
        LET kind == IF e.op = "create_file" THEN "f" ELSE "d"
            o == CreateOutcome(m, start, comps, kind)
            dpath == IF o.space.par = -1 THEN <<>> ELSE PathOf(m, o.space.par, 64)
            v == NsResult(s, e, o, dpath)
        IN IF o.ooc THEN [m |-> m, v |-> {}, ooc |-> TRUE]
           ELSE IF e.r.k # "ok" \/ v # {} THEN [m |-> m, v |-> v, ooc |-> FALSE]
           ELSE IF o.fx.t = "open" THEN
                [m |-> IF kind = "f" THEN AddFileHandle(m, h, o.fx.node) ELSE AddDirHandle(m, h, o.fx.node), v |-> {}, ooc |-> FALSE]
           ELSE LET id == m.next
                    m1 == ApplyCreate(m, o.fx, Stamp(s))
                    m2 == AddAliasKey(m1, id, Dp, s.oem, dpath, o.fx.name)
                    m3 == IF kind = "f" THEN AddFileHandle(m2, h, id) ELSE AddDirHandle(m2, h, id)
                IN [m |-> m3, v |-> AliasViol(Dp, dpath, o.fx.name), ooc |-> FALSE]
     [] e.op \in {"open_file", "open_dir"} ->
        LET kind == IF e.op = "open_file" THEN "f" ELSE "d"
            o == OpenOutcome(m, start, comps, kind)
        IN IF o.ooc THEN [m |-> m, v |-> {}, ooc |-> TRUE]
           ELSE IF o.fx.t = "open_or" THEN
                IF e.r.k = "ok" THEN [m |-> AddDirHandle(m, h, o.fx.node), v |-> {}, ooc |-> FALSE]
                ELSE [m |-> m, v |-> Tag("C01.result", e.r.k = "err" /\ e.r.e \in o.fx.errs), ooc |-> FALSE]
           ELSE LET v0 == NsResult(s, e, o, <<>>)
                    \* C15: a lookup matches exactly the entries whose long name or alias folds to the same key
                    v == IF v0 = {} THEN {} ELSE v0 \cup {IF o.mand = {} THEN "C15.lookup_hit" ELSE "C15.lookup_miss"}
                IN
                IF e.r.k # "ok" \/ v # {} THEN [m |-> m, v |-> v, ooc |-> FALSE]
                ELSE [m |-> IF kind = "f" THEN AddFileHandle(m, h, o.fx.node) ELSE AddDirHandle(m, h, o.fx.node), v |-> {}, ooc |-> FALSE]
     [] e.op = "remove" ->
        LET o == RemoveOutcome(m, start, comps)
            v == NsResult(s, e, o, <<>>)
        IN IF o.ooc THEN [m |-> m, v |-> {}, ooc |-> TRUE]
           ELSE IF e.r.k # "ok" \/ v # {} THEN [m |-> m, v |-> v, ooc |-> FALSE]
           ELSE [m |-> ApplyRemove(m, o.fx.node), v |-> {}, ooc |-> FALSE]
     [] e.op = "rename" ->
        LET dstart == StartNode(s, Get(a, "to", ""))
            scomps == SplitPath(a.su)
            dcomps == SplitPath(a.du)
        IN IF dstart = -1 THEN [m |-> m, v |-> {}, ooc |-> TRUE]
           ELSE LET o == RenameOutcome(m, start, scomps, dstart, dcomps)
                    dpath == IF o.space.par = -1 THEN <<>> ELSE PathOf(m, o.space.par, 64)
                    v == NsResult(s, e, o, dpath)
                IN IF o.ooc THEN [m |-> m, v |-> {}, ooc |-> TRUE]
                   ELSE IF e.r.k # "ok" \/ v # {} THEN [m |-> m, v |-> v, ooc |-> FALSE]
                   ELSE IF o.fx.t = "noop" THEN
                        \* renaming an entry onto a name that is the entry itself (same fold key): the code documents "nothing to do";
                        \* an implementation that changes the stored case instead is an equally good tree. Observed, then constrained.
                        LET r0 == Resolve(m, start, scomps)
                            d0 == Resolve(m, dstart, dcomps)
                            src == CHOOSE x \in r0.hit : TRUE
                            dp == PathOf(m, d0.par, 64)
                        IN IF AliasRows(Dp, dp, d0.last) # <<>> /\ d0.last # m.nodes[src].name /\ m.nodes[src].par = d0.par
                           THEN [m |-> ApplyRename(m, [node |-> src, par |-> d0.par, name |-> d0.last]), v |-> {}, ooc |-> FALSE]
                           ELSE [m |-> m, v |-> {}, ooc |-> FALSE]
                   ELSE LET m1 == ApplyRename(m, o.fx)
                            m2 == AddAliasKey(m1, o.fx.node, Dp, s.oem, dpath, o.fx.name)
                        IN [m |-> m2, v |-> AliasViol(Dp, dpath, o.fx.name), ooc |-> FALSE]
     [] e.op = "list" ->
        LET o == ListOutcome(m, start, comps) IN
        IF o.ooc THEN [m |-> m, v |-> {}, ooc |-> TRUE]
        ELSE IF o.mand # {} THEN [m |-> m, v |-> Tag("C01.result", e.r.k = "err" /\ e.r.e \in o.mand), ooc |-> FALSE]
        \* a path of slashes only names nothing: open_dir may answer NotFound (or the directory itself)
        ELSE IF comps = <<>> /\ a.pu # <<>> /\ e.r.k = "err" /\ e.r.e = "NotFound" THEN [m |-> m, v |-> {}, ooc |-> FALSE]
        ELSE IF e.r.k # "ok" THEN [m |-> m, v |-> {"C01.result"}, ooc |-> FALSE]
        ELSE LET ents == e.r.ents
                 listed == {<<ents[i].k, Last(ents[i].p)>> : i \in {x \in 1..Len(ents) : ~IsDotEnt(ents[x])}}
                 dots == Len(SelectSeq(ents, IsDotEnt))
                 want == {<<m.nodes[i].kind, m.nodes[i].name>> : i \in Kids(m, o.node)}
             IN [m |-> m, ooc |-> FALSE,
                 v |-> Tag("C01.list", listed = want /\ Len(ents) - dots = Cardinality(want))
                       \cup Tag("C01.list_dots", dots = IF o.node = 0 THEN 0 ELSE 2)]

FileStep(s, e) ==
   LET a == e.a
       m == s.m
       h == a.h
       U == s.U
   IN
   IF h \notin DOMAIN m.fh THEN [m |-> m, v |-> {}, ooc |-> TRUE]
   ELSE
   LET n == m.fh[h].node IN
   CASE e.op \in {"read", "read_all"} ->
        IF e.r.k # "ok" THEN [m |-> m, v |-> {"C02.read_len"}, ooc |-> FALSE]
        ELSE LET want == a.len \div U
                 k == Len(e.r.d)
                 lenOk == IF e.op = "read" THEN ReadLenOk(m, h, want, k)
                          ELSE k = (IF want < Size(m, h) - m.fh[h].pos THEN want ELSE Size(m, h) - m.fh[h].pos)
                 m1 == AfterRead(m, h, k)
                 \* access date stamping (C18.stamp_read): only with the option on, only when bytes were read
                 m2 == IF s.atime /\ k > 0 /\ m.nodes[n].ad # DateOf(s.clk)
                       THEN [m1 EXCEPT !.nodes[n].ad = DateOf(s.clk), !.fh[h].dirty = TRUE] ELSE m1
             IN [m |-> m2, ooc |-> FALSE,
                 v |-> Tag("C02.read_len", lenOk /\ e.r.n = k * U)
                       \cup Tag("C02.read_bytes", k <= Size(m, h) - m.fh[h].pos /\ e.r.d = ReadBytes(m, h, k))]
     [] e.op \in {"write", "write_all"} ->
        LET want == a.len \div U
            k == e.r.n \div U
            \* clusters the file has and needs (C05: out of space only when nothing is free)
            have == ClustersFor(s.raw, Size(m, h))
            need == ClustersFor(s.raw, IF m.fh[h].pos + k > Size(m, h) THEN m.fh[h].pos + k ELSE Size(m, h))
            freeLeft == FreeCount(s.D.F) - (need - have)
            m1 == IF k > 0 THEN [AfterWrite(m, h, a.d, k) EXCEPT !.nodes[n].mt = Trunc2s(s.clk), !.nodes[n].mtAlt = Trunc2s(s.clk)] ELSE m
        IN IF e.r.k = "ok" THEN
              [m |-> m1, ooc |-> FALSE,
               v |-> Tag("C02.write_len", IF want = 0 THEN k = 0
                                          ELSE IF e.op = "write" THEN k >= 1 /\ k <= want ELSE k = want)]
           ELSE IF e.r.k = "err" /\ e.r.e = "NotEnoughSpace" THEN
              [m |-> m1, ooc |-> FALSE,
               v |-> Tag("C05.nospace_legit", freeLeft <= 0 /\ k < want) \cup Tag("C02.write_len", k <= want)]
           ELSE [m |-> m, v |-> {"C02.write_len"}, ooc |-> FALSE]
     [] e.op = "seek" ->
        LET t == SeekTarget(m, h, a.from, a.off \div U) IN
        IF t = -1 THEN [m |-> m, v |-> Tag("C02.seek", e.r.k = "err" /\ e.r.e = "InvalidInput"), ooc |-> FALSE]
        ELSE [m |-> AfterSeek(m, h, t), v |-> Tag("C02.seek", e.r.k = "ok" /\ e.r.pos = t * U), ooc |-> FALSE]
     [] e.op = "truncate" ->
        IF e.r.k # "ok" THEN [m |-> m, v |-> {"C02.truncate"}, ooc |-> FALSE]
        ELSE [m |-> [AfterTruncate(m, h) EXCEPT !.nodes[n].mtAlt = Trunc2s(s.clk)], v |-> {}, ooc |-> FALSE]
     [] e.op = "flush" ->
        IF Has(e, "flt") /\ e.r.k = "err" THEN [m |-> m, v |-> {}, ooc |-> FALSE]
        ELSE IF e.r.k # "ok" THEN [m |-> m, v |-> {"C02.flush"}, ooc |-> FALSE]
        ELSE [m |-> AfterFlush(m, h), v |-> {}, ooc |-> FALSE]
     [] e.op = "close" -> [m |-> DropFileHandle(m, h), v |-> {}, ooc |-> FALSE]
     \* File::clone: a second handle on the same file with a copy of the cursor and of the pending entry changes
     [] e.op = "clone" ->
        IF e.r.k # "ok" THEN [m |-> m, v |-> {"C02.clone"}, ooc |-> FALSE]
        ELSE [m |-> [m EXCEPT !.fh = [x \in DOMAIN m.fh \cup {a.as} |-> IF x = a.as THEN m.fh[h] ELSE m.fh[x]]], v |-> {}, ooc |-> FALSE]
     [] e.op = "set_created" -> [m |-> [m EXCEPT !.nodes[n].ct = Trunc10ms(a.t), !.fh[h].dirty = TRUE], v |-> {}, ooc |-> FALSE]
     [] e.op = "set_modified" -> [m |-> [m EXCEPT !.nodes[n].mt = Trunc2s(a.t), !.nodes[n].mtAlt = Trunc2s(a.t), !.fh[h].dirty = TRUE], v |-> {}, ooc |-> FALSE]
     [] e.op = "set_accessed" -> [m |-> [m EXCEPT !.nodes[n].ad = DateOf(a.t), !.fh[h].dirty = TRUE], v |-> {}, ooc |-> FALSE]
     [] e.op = "extents" ->
        IF e.r.k # "ok" THEN [m |-> m, v |-> {"C04.extents"}, ooc |-> FALSE]
        ELSE LET ext == e.r.ext
                 segs == FlattenSeq([i \in 1..Len(ext) |-> ext[i].seg])
                 data == m.nodes[n].data
                 cs == s.raw.g.cs
                 \* every extent is one whole-cluster-aligned segment; sizes are min(cluster, remaining)
                 shape == /\ \A i \in 1..Len(ext) : Len(ext[i].seg) = 1 /\ ext[i].seg[1].r = "clu" /\ ext[i].seg[1].o = 0
                          /\ Len(ext) = ClustersFor(s.raw, Len(data))
                          /\ \A i \in 1..Len(ext) : ext[i].sz = (IF i < Len(ext) THEN cs ELSE Len(data) * U - (Len(ext) - 1) * cs)
                 clusters == [i \in 1..Len(segs) |-> segs[i].c]
                 \* the clusters are a chain of the table (checked when the entry is not lagging)
                 linked == \A i \in 1..(Len(clusters) - 1) : Val(s.D.F, clusters[i]) = clusters[i + 1]
             IN [m |-> m, ooc |-> FALSE,
                 v |-> Tag("C04.extents", shape /\ linked /\ e.r.d = data)]

(* ---------------- checks common to every event ---------------- *)
LagPaths(m) == {PathOf(m, i, 64) : i \in DirtyNodes(m)}
LagCells(m) == [p \in LagPaths(m) |-> LET i == CHOOSE x \in DirtyNodes(m) : PathOf(m, x, 64) = p IN Len(m.nodes[i].data)]

\* C03 with the deferred-write-back allowance: strict first, relaxed only if something lags
StructStep(raw, D, m) ==
   LET strict == StructViol(raw, D, {}, <<>>) IN
   IF strict = {} THEN [v |-> {}, dev |-> {}]
   ELSE IF DirtyNodes(m) = {} THEN [v |-> strict, dev |-> {}]
   ELSE LET relaxed == StructViol(raw, D, LagPaths(m), LagCells(m)) IN
        IF relaxed = {} THEN [v |-> {}, dev |-> {"D-F20"}] ELSE [v |-> relaxed, dev |-> {}]

TreeChecks(s, e, m, D, rv, sv, svok) ==
   LET lag == LagPaths(m)
       mf == TLCEval(TreeFacts(m))
       err == e.r.k # "ok"
       wantB == TLCEval(Blank(mf, lag))
       rvT == IF rv.ok THEN rv.tree ELSE <<>>
   IN  Tag("C04.decode", Blank(D.facts, lag) = wantB)
       \cup Tag("C04.decode_stamps", TimesMatch(TimesSkip(D.times, lag), m, lag))
       \cup (IF rv.ok THEN Tag("C04.remount", ~ViewBad(rvT) /\ Blank(ViewFacts(rvT, TRUE), lag) = wantB)
                           \cup Tag("C04.view_size", \A i \in 1..Len(rvT) : (rvT[i].k = "f" /\ rvT[i].p \notin lag) => (rvT[i].sz = Len(rvT[i].c) * s.U /\ ~Has(rvT[i], "cerr")))
                           \cup Tag("C18.stamps", TimesMatch(TimesSkip(ViewTimes(rvT), lag), m, lag))
             ELSE {"C04.remount"})
       \cup (IF rv.ok THEN Tag("C15.lossless", {f.p : f \in ViewFacts(rvT, FALSE)} = {f.p : f \in mf}) ELSE {})
       \cup (IF svok THEN Tag("C15.no_side_effect", ~err \/ ({f.p : f \in ViewFacts(sv, FALSE)} = {f.p : f \in mf})) ELSE {})
       \cup (IF svok THEN Tag(IF err THEN "C01.atomic_on_error" ELSE "C01.tree_after",
                              ~ViewBad(sv) /\ ViewFacts(sv, FALSE) = NoData(mf))
             ELSE {})

\* C12: what counts as a structural change between two projections
Structural(rawA, DA, rawB, DB) ==
   \/ rawA.fats # rawB.fats
   \/ DA.facts # DB.facts
   \/ DA.meta # DB.meta
   \/ DA.kinds # DB.kinds

DirtyBit(stb) == stb % 2 = 1
BitsKept(a, b) == \A k \in 0..7 : ((a \div (2 ^ k)) % 2 = 1) => ((b \div (2 ^ k)) % 2 = 1)

\* C11: a device-write segment is allowed
SegOk(s, seg, post, Dpost) ==
   CASE seg.r = "boot" -> seg.l = 1 /\ seg.o = (IF IsFat32(s.raw) THEN 65 ELSE 37)
     [] seg.r = "fsinfo" -> IsFat32(s.raw)
     [] seg.r = "fat" -> TRUE
     [] seg.r = "root" -> TRUE
     [] seg.r = "clu" -> InRangeC(s.D.F, seg.c)
     [] OTHER -> FALSE

Step(s, e) ==
   IF e.op = "begin" THEN
        IF e.r.k # "ok" \/ ~Has(e, "raw") THEN [s |-> Dead, v |-> {}, dev |-> {}, note |-> {"SKIPBEGIN"}]
        ELSE [s |-> Begin(e), v |-> BeginViol(e), dev |-> {}, note |-> {}]
   ELSE IF s.dead /\ (Get(s, "pm", FALSE) \/ Get(s, "pm12", FALSE)) /\ e.op \notin {"end", "crash", "poke"} THEN
        \* PM step.  The model was given up (after a false clause: pm and pm12; after an injected fault that the program survives:
        \* pm12 only).  Clauses that need no model are still judged on every later image:
        \*   pm   - the clauses of C03, every file treated as if its entry lagged (no size, chain or lost-cluster demand); a further
        \*          fault ends that (a failed call may leave half-written structures)
        \*   pm12 - the status-byte rules of C12: a structural change (difference of two raw projections) needs the dirty bit, no bit
        \*          is ever cleared, a successful unmount restores the byte
        IF e.r.k \in {"panic", "hang"} THEN [s |-> [s EXCEPT !.pm = FALSE, !.pm12 = FALSE], v |-> {}, dev |-> {}, note |-> {}]
        ELSE IF e.r.k = "skip" \/ (Has(e, "raw") /\ ~e.raw.ok) THEN [s |-> s, v |-> {}, dev |-> {}, note |-> {}]
        ELSE LET post == IF Has(e, "raw") THEN e.raw ELSE s.raw
                 Dp == IF Has(e, "raw") THEN Derive(post, s.oem) ELSE s.D
                 pmS == Get(s, "pm", FALSE) /\ ~Has(e, "flt")
                 files == {Dp.rows[i].p : i \in {x \in 1..Len(Dp.rows) : ~Dp.rows[x].e.dir}}
                 v3 == IF pmS /\ Has(e, "raw") THEN StructViol(post, Dp, files, [p \in files |-> 0]) \ {"C03.lost"} ELSE {}
                 changedNow == Has(e, "raw") /\ e.op # "mount" /\ Structural(s.raw, s.D, post, Dp)
                 changed == IF e.op = "mount" THEN FALSE ELSE s.changed \/ changedNow
                 mountSt == IF e.op = "mount" THEN s.raw.st ELSE s.mountSt
                 v12 == IF ~Get(s, "pm12", FALSE) THEN {}
                        ELSE IF e.op \in {"unmount", "dropfs"} THEN Tag("C12.unmount_restores", e.r.k = "ok" => post.st = mountSt)
                        ELSE IF e.op = "abandon" THEN {}
                        ELSE Tag("C12.bracket", changed => DirtyBit(post.st)) \cup Tag("C12.never_cleared", BitsKept(mountSt, post.st))
                 \* C05 needs no model either: a volume that this program's earlier session found trustworthy (count exact, or not usable)
                 \* must not be left marked clean with a usable but wrong free count, whatever failed in between: the next mount would
                 \* report that count (a count that was already wrong when the program began is the previous writer's business)
                 usable == IsFat32(s.raw) /\ s.raw.fi.ok /\ s.raw.fi.free >= 0 /\ s.raw.fi.free <= s.raw.g.n /\ ~DirtyBit(s.raw.st)
                 v05 == IF e.op = "mount" /\ Get(s, "fiBase", FALSE) /\ usable THEN Tag("C05.clean_stale", s.raw.fi.free = FreeCount(s.D.F)) ELSE {}
                 fiBase == IF e.op = "mount" THEN (~usable \/ s.raw.fi.free = FreeCount(s.D.F)) ELSE Get(s, "fiBase", FALSE)
                 \* C13 needs no model: a session of non-mutating calls writes nothing (statistics without a usable count may store it)
                 ro == IF e.op = "mount" THEN TRUE ELSE Get(s, "ro", FALSE) /\ e.op \in ReadOnlyOps
                 fiWp == IF e.op = "mount" THEN FALSE ELSE Get(s, "fiW", FALSE) \/ (e.op = "stats" /\ IsFat32(s.raw) /\ ~Get(s, "fiUsable", FALSE))
                 fiUp == IF e.op = "mount" THEN usable ELSE Get(s, "fiUsable", FALSE) \/ (e.op = "stats" /\ e.r.k = "ok")
                 v13 == IF ro /\ ~Get(s, "atime", FALSE) /\ Has(e, "nw")
                        THEN Tag("C13.no_write", e.nw = 0 \/ (fiWp /\ \A i \in 1..Len(e.w) : e.w[i].r = "fsinfo")) ELSE {}
                 \* the table never links a used cluster to a free one, also when calls before failed half-way (Fat!LinksToUsed)
                 vlf == IF Has(e, "raw") THEN Tag("C03.link_free", LinksToUsed(Dp.F)) ELSE {}
             IN [s |-> [s EXCEPT !.pm = pmS, !.raw = post, !.D = Dp, !.changed = changed, !.mountSt = mountSt, !.fiBase = fiBase,
                                 !.ro = ro, !.fiW = fiWp, !.fiUsable = fiUp],
                 v |-> v3 \cup v12 \cup v05 \cup vlf \cup v13, dev |-> {}, note |-> {"PM"}]
   ELSE IF e.op = "end" \/ (s.dead /\ (e.op # "crash" \/ ~Has(s, "dur"))) THEN [s |-> s, v |-> {}, dev |-> {}, note |-> {}]
   ELSE IF e.op = "crash" THEN
        \* C14: the image a power cut leaves after the first e.p entries of the device write log
        LET rvc == IF Has(e, "rv") THEN e.rv ELSE s.crv
            need == {r \in s.dur : r.lo <= e.p /\ e.p <= r.hi}
            \* (r.q # r.p only while a rename of the file or of a directory above it is under way: old or new path)
            found(r) == rvc.ok /\ \E i \in 1..Len(rvc.tree) : rvc.tree[i].p \in {r.p, r.q} /\ rvc.tree[i].k = "f" /\ rvc.tree[i].c = r.d
        IN [s |-> [s EXCEPT !.crv = rvc], v |-> Tag("C14.durable", \A r \in need : found(r)), dev |-> {},
            note |-> IF need = {} THEN {} ELSE {"C14n"}]
   ELSE IF e.op = "poke" THEN
        \* the unmounted image was modified by someone else (harness): adopt the new projection, judge nothing
        LET post == IF Has(e, "raw") THEN e.raw ELSE s.raw IN
        [s |-> [s EXCEPT !.raw = post, !.D = IF Has(e, "raw") THEN Derive(post, s.oem) ELSE s.D, !.rv = Get(e, "rv", s.rv), !.fiBase = FALSE],
         v |-> {}, dev |-> {}, note |-> {}]
   ELSE IF e.r.k = "skip" THEN
        \* the harness had no such handle (an earlier create/open failed): consistent iff the model has none either
        IF (Has(e.a, "h") /\ e.op \notin {"create_file", "create_dir", "open_file", "open_dir"}
            /\ e.a.h \notin DOMAIN s.m.fh /\ e.a.h \notin DOMAIN s.m.dh)
           \/ (Has(e.a, "at") /\ e.a.at # "" /\ e.a.at \notin DOMAIN s.m.dh)
           \/ (Has(e.a, "to") /\ e.a.to # "" /\ e.a.to \notin DOMAIN s.m.dh)
        THEN [s |-> s, v |-> {}, dev |-> {}, note |-> {}]
        ELSE [s |-> [s EXCEPT !.dead = TRUE], v |-> {}, dev |-> {}, note |-> {"SKIP"}]
   \* (a transient "interrupted" error that the looping callers - write_all, read_exact, the std::io adapter - repeated, after which the call
   \*  succeeded, is no fault at all for the caller: the event is judged like any other)
   ELSE IF Has(e, "flt") /\ e.flt.drop = FALSE /\ ~(e.op = "flush" /\ (e.r.k = "ok" \/ (e.r.k = "err" /\ e.r.e = "Io")))
           /\ ~(Get(e.flt, "intr", FALSE) /\ e.r.k = "ok" /\ e.op \in {"write_all", "read_all", "create_file", "create_dir", "remove", "rename", "truncate", "close"}) THEN
        \* an injected storage fault (C09 judges those traces): only an explicit flush has a defined continuation here: if it fails
        \* nothing is promised, and if the library reports success in spite of the fault its promise (C14) stands
        \* (the status-byte rules of C12 need no model: they stay in force, see the PM step)
        \* (a call that reports success although a device call failed has swallowed the error - C09's business - and claims to have done
        \*  its work: the model-free structural clauses stay in force for the images that follow)
        \* (the calls that follow are no longer modelled - renames and removals among them -, so the durability promises made so far
        \*  cannot be followed any further: they end here)
        [s |-> [s EXCEPT !.dead = TRUE, !.pm12 = TRUE, !.pm = (e.r.k = "ok"), !.dur = {}, !.raw = IF Has(e, "raw") /\ e.raw.ok THEN e.raw ELSE s.raw,
                         !.D = IF Has(e, "raw") /\ e.raw.ok THEN Derive(e.raw, s.oem) ELSE s.D],
         v |-> IF Has(e, "raw") /\ e.raw.ok THEN Tag("C03.link_free", LinksToUsed(Derive(e.raw, s.oem).F)) ELSE {}, dev |-> {}, note |-> {"FAULT"}]
   ELSE IF e.r.k \in {"panic", "hang"} THEN
        [s |-> [s EXCEPT !.dead = TRUE], v |-> {IF e.r.k = "panic" THEN "C00.panic" ELSE "C00.hang"}, dev |-> {}, note |-> {}]
   ELSE IF Has(e, "raw") /\ ~e.raw.ok THEN
        \* after this call the independent decoder can no longer make sense of the image (boot sector damaged, or the table area full of
        \* stray data): the strongest form of "structures inconsistent"; nothing further is judged
        [s |-> [s EXCEPT !.dead = TRUE], v |-> {"C00.undecodable"}, dev |-> {}, note |-> {}]
   ELSE
   LET post == IF Has(e, "raw") THEN e.raw ELSE s.raw
       Dp == IF Has(e, "raw") THEN Derive(post, s.oem) ELSE s.D
       rv == IF Has(e, "rv") THEN e.rv ELSE s.rv
       sv == IF Has(e, "sv") THEN e.sv ELSE s.sv
       svok == (Has(e, "sv") \/ s.svok) /\ e.op \notin {"mount", "unmount", "dropfs", "abandon"}
       os == CASE e.op \in {"create_file", "create_dir", "open_file", "open_dir", "remove", "rename", "list"} -> NsStep(s, e, Dp)
               [] e.op \in {"read", "read_all", "write", "write_all", "seek", "truncate", "flush", "close", "clone",
                             "set_created", "set_modified", "set_accessed", "extents"} -> FileStep(s, e)
               [] e.op = "closedir" -> [m |-> DropDirHandle(s.m, e.a.h), v |-> {}, ooc |-> FALSE]
               [] e.op = "close_all" -> [m |-> [s.m EXCEPT !.fh = <<>>, !.dh = <<>>], v |-> {}, ooc |-> FALSE]
               [] e.op \in {"mount", "unmount", "dropfs", "abandon"} -> [m |-> [s.m EXCEPT !.fh = <<>>, !.dh = <<>>], v |-> Tag("C00.mount", e.r.k = "ok"), ooc |-> FALSE]
               [] e.op = "stats" -> [m |-> s.m, ooc |-> FALSE,
                                     v |-> IF e.r.k # "ok" THEN {"C05.stats"}
                                           \* (a FAT32 volume whose advisory FSInfo count was already wrong when it was mounted is out of scope:
                                           \*  the library documents that it reports that count)
                                           ELSE Tag("C05.stats", (s.fiTrust => e.r.free = FreeCount(Dp.F)) /\ e.r.total = post.g.n /\ e.r.cs = post.g.cs)]
               \* volume information: FAT width, cluster size, volume id and label of the boot sector, and the label entry of the root
               \* directory (the first short slot with the volume attribute; builder volumes carry at most one)
               [] e.op = "info" ->
                    LET rks == {k \in 1..Len(post.dirs) : post.dirs[k].par = -1}
                        root == IF rks # {} THEN post.dirs[CHOOSE k \in rks : TRUE].sl ELSE <<>>
                        labs == SelectSeq(root, LAMBDA x : x.t = "S" /\ (x.at \div 8) % 2 = 1 /\ (x.at \div 16) % 2 = 0)
                    IN [m |-> s.m, ooc |-> FALSE,
                        v |-> IF e.r.k # "ok" THEN {"C08.info"}
                              ELSE Tag("C08.info", e.r.ft = post.g.ft /\ e.r.cs = post.g.cs
                                                   /\ (post.g.xs = 41 => e.r.label = RTrimSp(post.g.lab) /\ e.r.vid = post.g.vid)
                                                   /\ (Len(labs) = 0 => e.r.rlabel = <<>>)
                                                   /\ (Len(labs) = 1 => e.r.rlabel = labs[1].n))]
               [] OTHER -> [m |-> s.m, v |-> {}, ooc |-> FALSE]
   IN
   IF os.ooc THEN [s |-> [s EXCEPT !.dead = TRUE], v |-> {}, dev |-> {}, note |-> {"OOC"}]
   ELSE
   LET m == os.m
       rawChanged == Has(e, "raw")
       modelTouched == e.op \in MutatingOps \/ rawChanged \/ Has(e, "rv") \/ Has(e, "sv")
       st3 == IF rawChanged \/ DirtyNodes(m) # DirtyNodes(s.m) THEN StructStep(post, Dp, m) ELSE [v |-> {}, dev |-> {}]
       tv == IF modelTouched THEN TreeChecks(s, e, m, Dp, rv, sv, svok) ELSE {}
       \* ---- C10
       c10 == IF rawChanged THEN
                 (IF post.g.mir THEN Tag("C10.mirror", MirrorsEqual(post))
                  ELSE Tag("C10.inactive", \A k \in 1..Len(post.fats) : k # post.g.act + 1 => post.fats[k] = s.mountRaw.fats[k]))
                 \cup Tag("C10.reserved01", \A k \in 1..Len(post.fats) :
                            post.fats[k].e0 = s.mountRaw.fats[k].e0 /\ post.fats[k].e1 = s.mountRaw.fats[k].e1
                            /\ post.fats[k].e0h = s.mountRaw.fats[k].e0h /\ post.fats[k].e1h = s.mountRaw.fats[k].e1h)
                 \cup Tag("C10.padding", \A k \in 1..Len(post.fats) : post.fats[k].padx = s.mountRaw.fats[k].padx /\ post.fats[k].padz = s.mountRaw.fats[k].padz)
                 \cup Tag("C10.hi4", \A k \in 1..Len(post.fats) : post.fats[k].hm = s.mountRaw.fats[k].hm)
              ELSE {}
       \* ---- C11
       c11 == Tag("C11.region", \A i \in 1..Len(e.w) : SegOk(s, e.w[i], post, Dp))
              \cup Tag("C11.beyond", ~Has(e, "beyond") \/ \A i \in 1..Len(e.beyond) : e.beyond[i].kind # "write")
              \cup Tag("C20.beyond", ~Has(e, "beyond"))
              \cup Tag("C11.tail", Get(e, "tail", TRUE))
       \* ---- C12
       changedNow == rawChanged /\ e.op \notin {"mount"} /\ Structural(s.raw, s.D, post, Dp)
       changed == IF e.op = "mount" THEN FALSE ELSE s.changed \/ changedNow
       mountSt == IF e.op = "mount" THEN s.raw.st ELSE s.mountSt
       c12 == IF e.op \in {"unmount", "dropfs"} THEN Tag("C12.unmount_restores", e.r.k = "ok" => post.st = mountSt)
              ELSE IF e.op = "abandon" THEN {}
              ELSE Tag("C12.bracket", changed => DirtyBit(post.st))
                   \cup Tag("C12.never_cleared", BitsKept(mountSt, post.st))
                   \cup (IF changed /\ rv.ok THEN Tag("C12.abandon_dirty", rv.flags.dirty) ELSE {})
       \* ---- C13
       ro == IF e.op = "mount" THEN TRUE ELSE s.ro /\ e.op \in ReadOnlyOps
       \* a statistics query without a usable FSInfo count recomputes it; the count may then be stored in that sector
       fiW == IF e.op = "mount" THEN FALSE ELSE s.fiW \/ (e.op = "stats" /\ IsFat32(s.raw) /\ ~s.fiUsable)
       c13 == IF ro /\ ~s.atime
              THEN Tag("C13.no_write", e.nw = 0 \/ (fiW /\ \A i \in 1..Len(e.w) : e.w[i].r = "fsinfo"))
              ELSE {}
       \* is the FSInfo free count usable for this mount: present, in range, volume clean at mount
       fiUsable == IF e.op = "mount" THEN IsFat32(s.raw) /\ s.raw.fi.ok /\ s.raw.fi.free >= 0 /\ s.raw.fi.free <= s.raw.g.n /\ ~DirtyBit(s.raw.st)
                   ELSE s.fiUsable \/ (e.op = "stats" /\ e.r.k = "ok")
       fiTrust == IF e.op = "mount"
                  THEN ~(IsFat32(s.raw) /\ s.raw.fi.ok /\ s.raw.fi.free >= 0 /\ s.raw.fi.free <= s.raw.g.n /\ ~DirtyBit(s.raw.st))
                       \/ s.raw.fi.free = FreeCount(s.D.F)
                  ELSE s.fiTrust
       c05m == IF e.op = "mount" /\ s.fiBase /\ IsFat32(s.raw) /\ s.raw.fi.ok /\ s.raw.fi.free >= 0 /\ s.raw.fi.free <= s.raw.g.n /\ ~DirtyBit(s.raw.st)
               THEN Tag("C05.clean_stale", s.raw.fi.free = FreeCount(s.D.F)) ELSE {}
       \* ---- C05 FSInfo at unmount
       \* (a volume left marked dirty tells every mounter to ignore the stored count)
       \* (a session that neither changed the number of free clusters nor wrote the information sector leaves whatever a previous
       \*  writer stored there: nothing was "written at unmount")
       c05 == IF e.op \in {"unmount", "dropfs"} /\ IsFat32(post) /\ e.r.k = "ok" /\ post.fi.ok /\ ~DirtyBit(post.st) /\ s.fiTrust
                 /\ (post.fi # s.mountRaw.fi \/ FreeCount(Dp.F) # s.mountFree)
              THEN Tag("C05.fsinfo_count", post.fi.free = -1 \/ post.fi.free = FreeCount(Dp.F))
                   \cup Tag("C05.fsinfo_hint", post.fi.next = -1 \/ (post.fi.next >= 2 /\ post.fi.next <= post.g.n + 1))
              ELSE {}
       \* ---- C14 bookkeeping (only when the device write log is recorded)
       wlNow == Get(e, "wl", s.wl)
       hnode == IF Has(e, "a") /\ Has(e.a, "h") /\ e.a.h \in DOMAIN s.m.fh THEN {s.m.fh[e.a.h].node} ELSE {}
       touched == IF ~Has(e, "wl") THEN {}
                  ELSE (IF e.op \in {"write", "write_all", "truncate", "set_created", "set_modified", "set_accessed"} THEN hnode ELSE {})
                       \cup (IF e.op \in {"remove", "rename"} /\ e.r.k = "ok" THEN {i \in Ids(s.m) : i \notin Ids(m)} ELSE {})
       \* a rename does not modify the file: the promise moves with it.  While the device writes of the rename are under way the file is
       \* found under its old or its new path (with the flushed content), afterwards under the new one
       moved == IF Has(e, "wl") /\ e.op = "rename" /\ e.r.k = "ok"
                THEN {i \in Ids(s.m) \cap Ids(m) : PathOf(m, i, 64) # PathOf(s.m, i, 64)} ELSE {}
       flushed == IF ~Has(e, "wl") \/ e.r.k # "ok" THEN {}
                  ELSE IF e.op \in {"flush", "close"} THEN hnode
                  ELSE IF e.op = "close_all" THEN {s.m.fh[h].node : h \in DOMAIN s.m.fh} ELSE {}
       openMoved == {r \in s.dur : r.n \in moved /\ r.hi = 1073741824}
       dur == {IF (r.n \in touched \/ r.n \in moved) /\ r.hi = 1073741824 THEN [r EXCEPT !.hi = s.wl] ELSE r : r \in s.dur}
              \cup {[r EXCEPT !.q = PathOf(m, r.n, 64), !.lo = s.wl + 1, !.hi = wlNow] : r \in openMoved}
              \cup {[r EXCEPT !.p = PathOf(m, r.n, 64), !.q = PathOf(m, r.n, 64), !.lo = wlNow + 1] : r \in openMoved}
              \* durable from the last flush the storage has seen (e.fm), not merely from the return of the call
              \cup {[n |-> n, p |-> PathOf(m, n, 64), q |-> PathOf(m, n, 64), d |-> m.nodes[n].data, lo |-> Get(e, "fm", wlNow), hi |-> 1073741824]
                     : n \in flushed \cap Ids(m)}
       \* ---- C08 frames / C11 ownership: what this call may change
       \* objects whose path appears, disappears or is the target of a file operation, and all their ancestors
       opNodes == hnode \cup (IF e.op = "close_all" THEN {s.m.fh[h].node : h \in DOMAIN s.m.fh} ELSE {})
       pathsPre == {PathOf(s.m, i, 64) : i \in Ids(s.m)}
       pathsPost == {PathOf(m, i, 64) : i \in Ids(m)}
       \* the objects a namespace call names (also when it fails: a failing create may write and take back slots in the directory)
       named(at, pu) ==
          LET st0 == StartNode(s, at) IN
          IF st0 = -1 THEN {}
          ELSE LET r0 == Resolve(s.m, st0, SplitPath(pu)) IN
               IF r0.err # "none" THEN {} ELSE {PathOf(s.m, r0.par, 64)} \cup {PathOf(s.m, i, 64) : i \in r0.hit}
       argPaths == IF e.op \in {"create_file", "create_dir", "remove"} /\ Has(e, "a") /\ Has(e.a, "pu") THEN named(Get(e.a, "at", ""), e.a.pu)
                   ELSE IF e.op = "rename" /\ Has(e, "a") /\ Has(e.a, "su") THEN named(Get(e.a, "at", ""), e.a.su) \cup named(Get(e.a, "to", ""), e.a.du)
                   ELSE {}
       changedPaths == (pathsPre \ pathsPost) \cup (pathsPost \ pathsPre) \cup {PathOf(s.m, i, 64) : i \in opNodes \cap Ids(s.m)} \cup argPaths
       allowed == UNION {{SubSeq(p, 1, k) : k \in 0..Len(p)} : p \in changedPaths}
       \* (with access-date updating on, reading a file or listing a directory stamps entries: the frames below do not apply)
       framed == rawChanged /\ e.op # "mount" /\ Len(s.raw.dirs) > 0 /\ ~s.atime
       chainsOf(D, raw) == UNION ({ToSet(D.rows[i].w.ch) : i \in {x \in 1..Len(D.rows) : D.rows[x].p \in allowed}}
                                  \cup {IF <<>> \in allowed /\ IsFat32(raw) THEN ToSet(Walk(D.F, raw.g.rootc).ch) ELSE {}})
       \* clusters no entry references belong to a file whose entry lags behind (deferred write-back, C03 keeps them in check)
       lostOf(D, raw) == LostSet(D.F, [i \in 1..Len(D.rows) |-> D.rows[i].w]
                                      \o (IF IsFat32(raw) THEN <<Walk(D.F, raw.g.rootc)>> ELSE <<>>))
       okClusters == TLCEval(chainsOf(s.D, s.raw) \cup chainsOf(Dp, post) \cup lostOf(s.D, s.raw) \cup lostOf(Dp, post))
       fatPre == s.raw.fats[s.raw.g.act + 1]
       fatPost == post.fats[post.g.act + 1]
       changedFat == {k \in DOMAIN fatPre.m \cup DOMAIN fatPost.m : Get(fatPre.m, k, 0) # Get(fatPost.m, k, 0)}
       c08 == IF ~framed THEN {}
              ELSE Tag("C08.frame_fat", \A k \in changedFat : k \notin DOMAIN fatPre.m \/ k \in {ToString(c) : c \in okClusters})
                   \cup Tag("C08.frame_slots",
                        \* a slot that existed before the call may differ afterwards only if it was free (deleted) or belongs to the run
                        \* of an entry the call may change (the targets and, for their stamps, the directories above them):
                        \* volume labels, orphaned runs and every other entry stay byte-identical
                        \A a \in 1..Len(s.raw.dirs) : \A b \in 1..Len(post.dirs) :
                           s.raw.dirs[a].id = post.dirs[b].id =>
                              \A i \in 1..Len(s.raw.dirs[a].sl) :
                                 LET old == s.raw.dirs[a].sl[i] IN
                                 \/ (i <= Len(post.dirs[b].sl) /\ post.dirs[b].sl[i].x = old.x)
                                 \/ old.t = "D"
                                 \/ \E r \in 1..Len(s.D.rows) : s.D.rows[r].dk = a /\ s.D.rows[r].e.first <= i /\ i <= s.D.rows[r].e.i
                                                                /\ s.D.rows[r].p \in allowed
                                 \/ (s.D.paths[a] \in allowed /\ old.t = "S" /\ (IsDotName(old.n) \/ IsDotDotName(old.n))))
                   \cup Tag("C08.frame_bad", fatPre.bad = fatPost.bad)
       \* a write into a directory (fixed root area or a cluster of a directory's chain) may touch only slots that were free,
       \* that belong to an entry the call may change, or whose bytes it leaves as they were
       slotOk(a, i) ==
          LET old == s.raw.dirs[a].sl IN
          \/ i > Len(old) \/ old[i].t = "D"
          \/ \E r \in 1..Len(s.D.rows) : s.D.rows[r].dk = a /\ s.D.rows[r].e.first <= i /\ i <= s.D.rows[r].e.i /\ s.D.rows[r].p \in allowed
          \/ \E b \in 1..Len(post.dirs) : post.dirs[b].id = s.raw.dirs[a].id /\ i <= Len(post.dirs[b].sl) /\ post.dirs[b].sl[i].x = old[i].x
          \* the dot entries of a directory the call moves (its ".." follows the new parent)
          \/ (s.D.paths[a] \in allowed /\ old[i].t = "S" /\ (IsDotName(old[i].n) \/ IsDotDotName(old[i].n)))
       per == s.raw.g.cs \div 32
       segSlotsOk(seg) ==
          IF seg.r = "root" THEN
             \A a \in 1..Len(s.raw.dirs) : s.raw.dirs[a].par = -1 => \A i \in seg.lo..seg.hi : slotOk(a, i)
          ELSE IF seg.r = "clu" THEN
             \A a \in 1..Len(s.raw.dirs) : \A j \in 1..Len(s.raw.dirs[a].ch) :
                s.raw.dirs[a].ch[j] = seg.c =>
                   \A i \in ((j - 1) * per + seg.o \div 32 + 1)..((j - 1) * per + (seg.o + seg.l - 1) \div 32 + 1) : slotOk(a, i)
          ELSE TRUE
       \* clusters that (also) lie on the chain of an object the call may NOT change: on a consistent image nobody else claims them, and if
       \* a stale entry of an allowed object claims them too, a write through that entry still lands in a different file
       foreignPre == TLCEval(UNION {ToSet(s.D.rows[i].w.ch) : i \in {x \in 1..Len(s.D.rows) : s.D.rows[x].p \notin allowed}})
       c11o == Tag("C11.owner", s.atime \/ \A i \in 1..Len(e.w) : e.w[i].r = "clu" =>
                       (IsFreeC(s.D.F, e.w[i].c) \/ (e.w[i].c \in okClusters /\ e.w[i].c \notin foreignPre) \/ ~InRangeC(s.D.F, e.w[i].c)))
               \cup Tag("C11.dir_slots", e.op = "mount" \/ Len(s.raw.dirs) = 0 \/ s.atime \/ \A i \in 1..Len(e.w) : segSlotsOk(e.w[i]))
       v == os.v \cup st3.v \cup tv \cup c10 \cup c11 \cup c11o \cup c12 \cup c13 \cup c05 \cup c05m \cup c08
   IN [s |-> [s EXCEPT !.m = m, !.raw = post, !.D = Dp, !.rv = rv, !.sv = sv, !.svok = svok, !.dead = (\E t \in v : \E pfx \in {"C00.", "C01.", "C02.", "C04.", "C15."} : SubSeqStr(t, pfx)),
                       !.pm = (\E t \in v : \E pfx \in {"C00.", "C01.", "C02.", "C04.", "C15."} : SubSeqStr(t, pfx)),
                       !.pm12 = (\E t \in v : \E pfx \in {"C00.", "C01.", "C02.", "C04.", "C15."} : SubSeqStr(t, pfx)),
                       !.changed = changed, !.mountSt = mountSt, !.ro = ro, !.fiUsable = fiUsable, !.fiW = fiW, !.fiTrust = fiTrust, !.fiBase = (IF e.op = "mount" THEN fiTrust ELSE s.fiBase),
                       !.mountRaw = IF e.op = "mount" THEN s.raw ELSE s.mountRaw,
                       !.mountFree = IF e.op = "mount" THEN FreeCount(s.D.F) ELSE s.mountFree, !.dur = dur, !.wl = wlNow,
                       !.clk = IF Has(e, "clk") THEN e.clk ELSE s.clk],
       v |-> v, dev |-> st3.dev, note |-> {}]

(* ---------------- the trace specification ---------------- *)
Init == l = 1 /\ st = Dead

Next ==
   /\ l <= Len(Rec)
   /\ LET e == Rec[l]
          r == Step(st, e)
      IN /\ st' = r.s
         /\ l' = l + 1
         /\ \A t \in r.v : PrintT(<<"VIOL", t, e.pid, e.i, e.op>>)
         /\ \A t \in r.dev : PrintT(<<"DEV", t, e.pid, e.i, e.op>>)
         /\ \A t \in r.note : PrintT(<<"NOTE", t, e.pid, e.i, e.op>>)

Spec == Init /\ [][Next]_<<l, st>>

Consumed == l = Len(Rec) + 1 => PrintT(<<"CONSUMED", Len(Rec)>>)
TraceAccepted == TLCGet("stats").diameter = Len(Rec) + 1
=============================================================================
