------------------------------- MODULE Names -------------------------------
(***************************************************************************)
(* Names of FAT directory entries.                                         *)
(*   - long names are sequences of UTF-16 units                            *)
(*   - validity of a long name (what create/rename must accept)            *)
(*   - path splitting                                                      *)
(*   - case folding (fold key) with a pluggable non-ASCII table            *)
(*   - 8.3 short names: legality, display form, LFN checksum               *)
(* Everything is a constant-level operator; no state.                      *)
(***************************************************************************)
EXTENDS Integers, Sequences, FiniteSets, SequencesExt, Functions, TLC

(* ---------------- UTF-16 / UTF-8 ---------------- *)
IsHiSur(u) == u >= 55296 /\ u <= 56319
IsLoSur(u) == u >= 56320 /\ u <= 57343

\* number of UTF-8 bytes of a unit sequence (a surrogate pair = one 4-byte scalar; a lone
\* surrogate cannot occur in a Rust &str and is counted as 3)
Utf8Len(us) ==
   LET step(acc, i) ==
         LET u == us[i] IN
         IF u < 128 THEN acc + 1
         ELSE IF u < 2048 THEN acc + 2
         ELSE IF IsLoSur(u) /\ i > 1 /\ IsHiSur(us[i - 1]) THEN acc + 1   \* 3 (hi) + 1 = 4 for the pair
         ELSE acc + 3
   IN FoldLeft(step, 0, [i \in 1..Len(us) |-> i])

\* the documented long-name character set (validate_long_name), ASCII part
AsciiOk == (48..57) \cup (65..90) \cup (97..122)
           \cup {36, 37, 39, 45, 95, 64, 126, 96, 33, 40, 41, 123, 125, 46, 32, 43, 44, 59, 61, 91, 93, 94, 35, 38}

\* a UTF-16 unit is an acceptable name character iff ASCII-allowed or a non-surrogate BMP scalar >= 0x80
ValidUnit(u) == u \in AsciiOk \/ (u >= 128 /\ u <= 65535 /\ ~IsHiSur(u) /\ ~IsLoSur(u))

\* "none" | "InvalidFileNameLength" | "UnsupportedFileNameCharacter" : the SET of name errors that apply
NameErrors(us) ==
   (IF us = <<>> \/ Utf8Len(us) > 255 THEN {"InvalidFileNameLength"} ELSE {})
   \cup (IF \E i \in 1..Len(us) : ~ValidUnit(us[i]) THEN {"UnsupportedFileNameCharacter"} ELSE {})

ValidLongName(us) == NameErrors(us) = {}

(* ---------------- paths ---------------- *)
\* split on '/' (47); empty components vanish (equivalent to trim_matches('/') at every level)
SplitPath(p) ==
   LET step(acc, u) ==   \* acc = [out, cur]
         IF u = 47 THEN (IF acc.cur = <<>> THEN acc ELSE [out |-> Append(acc.out, acc.cur), cur |-> <<>>])
         ELSE [out |-> acc.out, cur |-> Append(acc.cur, u)]
       r == FoldLeft(step, [out |-> <<>>, cur |-> <<>>], p)
   IN IF r.cur = <<>> THEN r.out ELSE Append(r.out, r.cur)

(* ---------------- case folding ---------------- *)
AsciiUpper(c) == IF c >= 97 /\ c <= 122 THEN c - 32 ELSE c

\* FoldKey(tab, us): upper-case expansion of every unit; tab is a record "code" |-> <<units>> for the
\* non-ASCII characters whose upper case differs (emitted from Rust std by the harness), or the
\* empty record <<>> for ASCII-only folding.
FoldKeyWith(tab, us) ==
   LET dom == DOMAIN tab
       one(u) == IF u < 128 THEN <<AsciiUpper(u)>>
                 ELSE LET k == ToString(u) IN IF k \in dom THEN tab[k] ELSE <<u>>
   IN FoldLeft(LAMBDA acc, u : acc \o one(u), <<>>, us)

(* ---------------- 8.3 short names ---------------- *)
\* rotate-right-and-add checksum of the 11 raw bytes
LfnChecksum(raw11) == FoldLeft(LAMBDA acc, x : (((acc % 2) * 128) + (acc \div 2) + x) % 256, 0, raw11)

SfnCharOk(b) == b \in ((48..57) \cup (65..90) \cup {33, 35, 36, 37, 38, 39, 40, 41, 45, 64, 94, 95, 96, 123, 125, 126}) \/ b >= 128

\* a part (base or extension): legal characters, then only spaces
PartOk(s) == \A i \in 1..Len(s) : IF s[i] = 32 THEN \A j \in i..Len(s) : s[j] = 32 ELSE SfnCharOk(s[i])

\* legal alias: 11 bytes, base non-empty and not starting with space / 0xE5 / 0x00, upper case only
\* (SfnCharOk has no lower-case letters), no embedded space, no dot
LegalShortName(raw) ==
   /\ Len(raw) = 11
   /\ raw[1] # 32 /\ raw[1] # 229 /\ raw[1] # 0
   /\ PartOk(SubSeq(raw, 1, 8))
   /\ PartOk(SubSeq(raw, 9, 11))

RTrim(s) == LET nz == {i \in 1..Len(s) : s[i] # 32} IN
            IF nz = {} THEN <<>> ELSE SubSeq(s, 1, CHOOSE i \in nz : \A j \in nz : j <= i)

\* 8.3 display bytes: base [ "." ext ], 0x05 lead byte stands for 0xE5
ShortDisplay(raw) ==
   LET b0 == RTrim(SubSeq(raw, 1, 8))
       b  == IF b0 # <<>> /\ b0[1] = 5 THEN <<229>> \o Tail(b0) ELSE b0
       e  == RTrim(SubSeq(raw, 9, 11))
   IN IF e = <<>> THEN b ELSE b \o <<46>> \o e

LowerAscii(b) == IF b >= 65 /\ b <= 90 THEN b + 32 ELSE b
\* display form honouring the NT lower-case flags (bit 3 = base, bit 4 = extension)
ShortDisplayNt(raw, nt) ==
   LET lb == (nt \div 8) % 2 = 1
       le == (nt \div 16) % 2 = 1
       r2 == [i \in 1..11 |-> IF (i <= 8 /\ lb) \/ (i > 8 /\ le) THEN LowerAscii(raw[i]) ELSE raw[i]]
   IN ShortDisplay(r2)

\* OEM decoding of short-name bytes: "lossy" maps bytes >= 0x80 to U+FFFD, "latin1" to themselves
OemDecode(mode, bytes) == [i \in 1..Len(bytes) |-> IF bytes[i] < 128 THEN bytes[i]
                                                     ELSE IF mode = "latin1" THEN bytes[i] ELSE 65533]

IsDotName(raw)    == raw = <<46, 32, 32, 32, 32, 32, 32, 32, 32, 32, 32>>
IsDotDotName(raw) == raw = <<46, 46, 32, 32, 32, 32, 32, 32, 32, 32, 32>>
=============================================================================
