---------------------------- MODULE MC_FormatImpl ----------------------------
(* requests around every threshold of the layout computation: Layout(req) is valid or InvalidInput, defaults succeed *)
EXTENDS FormatImpl
CONSTANT Deep
VARIABLE req

Around(x) == {x - 2, x - 1, x, x + 1, x + 2}
\* sector counts (512-byte sectors) at the thresholds of estimate_fat_type / determine_bytes_per_cluster and of the width limits
SmallT == (1..(IF Deep THEN 3000 ELSE 700)) \cup Around(4085 + 40) \cup Around(8400) \cup Around(32768) \cup Around(65525 + 600) \cup Around(66601) \cup Around(131072)
          \cup Around(262144) \cup Around(532480) \cup Around(1048576) \cup Around(16777216) \cup {33554432, 268435456, 1073741824, 2147483647}
BigT == {<<32767, 32767, 3, 0, 0>>, <<0, 0, 3, 0, 0>>, <<0, 0, 2, 0, 0>>, <<1, 0, 2, 0, 0>>}
Ts == {FromInt(t) : t \in SmallT} \cup BigT
Opt == {[bps |-> 512, fats |-> 2, root |-> 512]}
       \cup {[bps |-> bps, fats |-> f, root |-> r] : bps \in {512, 4096}, f \in {1, 2}, r \in {16, 512}}
       \cup {[bps |-> 512, fats |-> 2, root |-> 512, ft |-> ft] : ft \in {12, 16, 32}}
       \cup {[bps |-> bps, fats |-> 2, root |-> 512, bpc |-> c] : bps \in {512, 2048}, c \in {256, 512, 4096, 32768}}
       \cup (IF Deep THEN {[bps |-> bps, fats |-> f, root |-> 240, ft |-> ft, bpc |-> c] : bps \in {512, 1024}, f \in {1, 2}, ft \in {12, 16, 32}, c \in {1024, 8192}} ELSE {})
Init == \E o \in Opt : \E t \in Ts : req = [x \in DOMAIN o \cup {"T"} |-> IF x = "T" THEN t ELSE o[x]]
Next == UNCHANGED req
Spec == Init /\ [][Next]_req

ValidInv == LET l == Layout(req) IN l.k = "ok" => ValidLayoutB(req, l)
DefaultInv == (DefaultReq(req) /\ Leq(FromInt(42), req.T)) => Layout(req).k = "ok"
\* vacuity probes (each must be violated)
NoneOk12 == ~(Layout(req).k = "ok" /\ Layout(req).ft = 12)
NoneOk16 == ~(Layout(req).k = "ok" /\ Layout(req).ft = 16)
NoneOk32 == ~(Layout(req).k = "ok" /\ Layout(req).ft = 32)
NoneErr == Layout(req).k = "ok"
=============================================================================
