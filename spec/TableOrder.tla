----------------------------- MODULE TableOrder -----------------------------
(***************************************************************************)
(* Design level of C03.link_free: the three table mutations of table.rs    *)
(* (alloc_cluster, ClusterIterator::free, ClusterIterator::truncate) as     *)
(* sequences of single-entry writes, ANY of which may be the last one the   *)
(* storage accepts (the call fails there and returns; later calls go on).   *)
(*                                                                         *)
(*   alloc(prev):   new := EOC            then  prev := new                 *)
(*   free(head):    c1 := 0, c2 := 0, ... in chain order (the link of a     *)
(*                  cluster is read before the cluster is freed)            *)
(*   truncate(c):   c := EOC              then  free(next of c)             *)
(*                                                                         *)
(* Invariant at EVERY write boundary, whatever failed before: no used entry *)
(* links to a free one (LinkFree), links stay in range and acyclic.  That   *)
(* is what makes a failed call harmless for everybody else: the worst it    *)
(* leaves is a chain nobody references.  Legacy = {"link_first"} (seeded     *)
(* C02-8 / C11-8: prev := new before new := EOC) is refuted.                 *)
(* The code is bound to this clause by the append-fault families (C02, C03,  *)
(* C11): Fat!LinksToUsed is judged on every image after an injected fault.   *)
(***************************************************************************)
EXTENDS Integers, Sequences, FiniteSets, TLC

CONSTANTS N, MaxOps, Legacy
VARIABLES fat, todo, nops

vars == <<fat, todo, nops>>
Cl == 2..(N + 1)
Used == {c \in Cl : fat[c] # 0}
Free == Cl \ Used
Nxt(c) == IF fat[c] \in Cl THEN fat[c] ELSE 0

RECURSIVE ChainFrom(_, _)
ChainFrom(c, fuel) == IF c \notin Cl \/ fuel = 0 \/ fat[c] = 0 THEN <<>> ELSE IF fat[c] = -1 THEN <<c>> ELSE <<c>> \o ChainFrom(fat[c], fuel - 1)

Init == fat = [c \in Cl |-> 0] /\ todo = <<>> /\ nops = 0

\* a call computes its writes from the table it finds (reads come first), then issues them one by one
StartAlloc(prev) ==
   /\ todo = <<>> /\ nops < MaxOps /\ Free # {}
   /\ prev = 0 \/ (prev \in Used /\ fat[prev] = -1)                       \* (a new chain, or the last cluster of one)
   /\ LET new == CHOOSE c \in Free : \A d \in Free : c <= d
          mark == <<new, -1>>
          link == <<prev, new>>
      IN todo' = IF prev = 0 THEN <<mark>> ELSE IF "link_first" \in Legacy THEN <<link, mark>> ELSE <<mark, link>>
   /\ nops' = nops + 1 /\ UNCHANGED fat
StartFree(head) ==
   /\ todo = <<>> /\ nops < MaxOps /\ head \in Used /\ (\A d \in Used : fat[d] # head)       \* (a chain is freed from its first cluster)
   /\ todo' = [i \in 1..Len(ChainFrom(head, N + 1)) |-> <<ChainFrom(head, N + 1)[i], 0>>]
   /\ nops' = nops + 1 /\ UNCHANGED fat
StartTruncate(c) ==
   /\ todo = <<>> /\ nops < MaxOps /\ c \in Used
   /\ LET rest == ChainFrom(Nxt(c), N + 1) IN
      todo' = <<<<c, -1>>>> \o [i \in 1..Len(rest) |-> <<rest[i], 0>>]
   /\ nops' = nops + 1 /\ UNCHANGED fat
\* one device write reaches the medium
Step == /\ todo # <<>>
        /\ fat' = [fat EXCEPT ![todo[1][1]] = todo[1][2]]
        /\ todo' = Tail(todo) /\ UNCHANGED nops
\* the storage fails: the rest of the call's writes never happen, the call returns its error
Fail == todo # <<>> /\ todo' = <<>> /\ UNCHANGED <<fat, nops>>

Next == (\E p \in Cl \cup {0} : StartAlloc(p)) \/ (\E h \in Cl : StartFree(h) \/ StartTruncate(h)) \/ Step \/ Fail
Spec == Init /\ [][Next]_vars
View == <<fat, todo>>          \* (without the call counter the state space is finite: the exploration is complete for N clusters)

LinkFree == \A c \in Used : fat[c] = -1 \/ (fat[c] \in Cl /\ fat[fat[c]] # 0)
Acyclic == \A c \in Used : LET ch == ChainFrom(c, N + 1) IN Cardinality({ch[i] : i \in 1..Len(ch)}) = Len(ch) /\ (ch # <<>> => fat[ch[Len(ch)]] = -1)
=============================================================================
