----------------------------- MODULE MC_FatInd -----------------------------
(***************************************************************************)
(* What the inductive invariant of FatInd means: TLC enumerates EVERY      *)
(* table over N clusters (no transition is taken) and checks that a table  *)
(* satisfying IndInv is a forest of simple chains: every chain that starts *)
(* at a head ends, no cluster lies on two chains, every used cluster lies  *)
(* on the chain of a head (nothing is lost), and the count is exact.       *)
(* Together with Apalache's proof that IndInv is inductive this gives the  *)
(* structural part of C03 and the algebra of C05 for every history of      *)
(* table mutations, not only for the histories within a bound.             *)
(***************************************************************************)
EXTENDS FatInd, Sequences, TLC

\* heads, count and ghost positions are functions of the table when IndInv holds: enumerate tables only
RECURSIVE Rank(_, _, _)
Rank(f, c, fuel) ==
   IF fuel = 0 THEN 0
   ELSE LET P == {p \in Cl : f[p] = c} IN
        IF P = {} THEN 1 ELSE LET r == Rank(f, CHOOSE p \in P : TRUE, fuel - 1) IN IF r = 0 THEN 0 ELSE r + 1

EnumInit ==
   /\ nxt \in [Cl -> (Cl \union {0, -1})]
   /\ heads = {c \in Cl : nxt[c] # 0 /\ {p \in Cl : nxt[p] = c} = {}}
   /\ free = N - Cardinality({c \in Cl : nxt[c] # 0})
   /\ pos = [c \in Cl |-> IF nxt[c] = 0 THEN 0 ELSE LET r == Rank(nxt, c, N + 1) IN IF r > N THEN 0 ELSE r]
EnumNext == UNCHANGED <<nxt, heads, free, pos>>
EnumSpec == EnumInit /\ [][EnumNext]_<<nxt, heads, free, pos>>

RECURSIVE Walk(_, _)
Walk(c, fuel) == IF fuel = 0 THEN <<c>> ELSE IF nxt[c] \in Cl THEN <<c>> \o Walk(nxt[c], fuel - 1) ELSE <<c>>
ChainOf(h) == Walk(h, N + 1)
Set(s) == {s[i] : i \in 1..Len(s)}

Forest ==
   /\ \A h \in heads : LET ch == ChainOf(h) IN Len(ch) <= N /\ nxt[ch[Len(ch)]] = -1            \* every chain ends
   /\ \A h1, h2 \in heads : h1 # h2 => Set(ChainOf(h1)) \cap Set(ChainOf(h2)) = {}               \* no cross link
   /\ \A h \in heads : Cardinality(Set(ChainOf(h))) = Len(ChainOf(h))                            \* no cycle
   /\ Used = UNION {Set(ChainOf(h)) : h \in heads}                                               \* nothing lost
   /\ free = N - Cardinality(Used)

Meaning == IndInv => Forest
\* and conversely every forest (with its heads, count and positions) satisfies IndInv: the invariant excludes nothing legal
Complete == (Forest /\ \A c \in Cl : nxt[c] # c) => IndInv
\* how many of the enumerated tables satisfy the invariant (printed once at the end through a TLC register)
=============================================================================
