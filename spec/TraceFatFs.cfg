SPECIFICATION Spec
CONSTANT FoldTab <- FoldTabDef
POSTCONDITION TraceAccepted
CHECK_DEADLOCK FALSE
