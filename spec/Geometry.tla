------------------------------ MODULE Geometry ------------------------------
(***************************************************************************)
(* From a BIOS parameter block to the derived geometry, in exact           *)
(* arithmetic.  A bpb is a record of small integers and limb sequences:    *)
(*   bps, spc, rsvd, nfats, rootn, ts16, media, spf16 : integers           *)
(*   ts32, spf32, rootc : limbs                                            *)
(*   extf, fsver, fis (FSInfo sector), bks (backup sector) : integers      *)
(* Coherent(b) is the acceptance condition of C07; ValidLayout is shared   *)
(* with C06.                                                               *)
(***************************************************************************)
EXTENDS Integers, Sequences, Nat64

IsPow2(n) == n \in {1, 2, 4, 8, 16, 32, 64, 128, 256, 512, 1024, 2048, 4096, 8192, 16384, 32768}

Layout32(b) == b.spf16 = 0                               \* the FAT32 form of the BPB is in use
Spf(b) == IF Layout32(b) THEN b.spf32 ELSE FromInt(b.spf16)
Total(b) == IF b.ts16 # 0 THEN FromInt(b.ts16) ELSE b.ts32
RootSecs(b) == (b.rootn * 32 + b.bps - 1) \div b.bps     \* < 2^16 * 32 / 512 + 1
AllFats(b) == MulSmall(Spf(b), b.nfats)                   \* nfats < 256
FirstData(b) == Add(Add(FromInt(b.rsvd), AllFats(b)), FromInt(RootSecs(b)))
FitsBeforeData(b) == Lt(FirstData(b), Total(b))           \* at least one data sector
DataSecs(b) == Sub(Total(b), FirstData(b))
Clusters(b) == DivSmall(DataSecs(b), b.spc)               \* limbs

FatTypeOf(n) == IF Lt(n, FromInt(4085)) THEN 12 ELSE IF Lt(n, FromInt(65525)) THEN 16 ELSE 32

\* number of entries one table copy can hold: spf * bps * 8 / bits
FatBits(b) == MulSmall(MulSmall(Spf(b), b.bps), 8)
NeededBits(b, ft) == MulSmall(Add(Clusters(b), FromInt(2)), ft)
TableHolds(b, ft) == Leq(NeededBits(b, ft), FatBits(b))

MaxCluster32 == FromInt(268435445)                        \* 0x0FFFFFF5

(***************************************************************************)
(* C07: a volume may be accepted only if ...                               *)
(***************************************************************************)
Coherent(b) ==
   /\ b.bps \in {512, 1024, 2048, 4096}
   /\ b.spc \in {1, 2, 4, 8, 16, 32, 64, 128}
   /\ b.nfats # 0
   /\ ~Eq(Spf(b), Zero)
   /\ Fits32(AllFats(b))                                  \* no 32-bit wrap-around in the region sums
   /\ Fits32(FirstData(b))
   /\ FitsBeforeData(b)
   /\ LET n == Clusters(b) ft == FatTypeOf(n) IN
      /\ (ft = 32) = Layout32(b)                          \* width consistent with the cluster count
      /\ (ft = 32 => Leq(n, FromInt(268435455)))
      /\ (Layout32(b) => /\ b.fis < b.rsvd /\ b.bks < b.rsvd
                         /\ Leq(FromInt(2), b.rootc) /\ Leq(b.rootc, Add(n, FromInt(1))))

\* what an independent parse derives (compared with what the library reports)
DerivedType(b) == FatTypeOf(Clusters(b))
DerivedClusterSize(b) == b.bps * b.spc
=============================================================================
