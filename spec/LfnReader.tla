----------------------------- MODULE LfnReader -----------------------------
(***************************************************************************)
(* Design level of C17 / C19: the directory reader of dir.rs               *)
(* (DirIter::read_dir_entry driving LongNameBuilder over an LfnBuffer) as  *)
(* a state machine, one action per slot read, checked against the          *)
(* declarative meaning of a slot sequence (DirSlots!Class / LongNameOk).    *)
(*                                                                         *)
(* The directory is ANY sequence of at most MaxSlots slots over an alphabet *)
(* of long-name slots (orders with and without the last flag, an invalid    *)
(* order, two checksums, a few unit patterns), two short entries whose      *)
(* names have those two checksums, a deleted slot and a volume label.  The  *)
(* reader is written the way the code is written, for both buffer          *)
(* implementations: Build = "alloc" (Vec: clear empties, set_len resizes    *)
(* keeping what is there and zero-filling) and Build = "fixed" (array: clear*)
(* zeroes, set_len only moves the length).                                  *)
(*                                                                         *)
(* Invariant Decoded: every entry the reader returns carries a long name    *)
(* that DirSlots!LongNameOk accepts for that slot sequence - the name of a  *)
(* definitely valid run, nothing for a broken run - and entries come out    *)
(* one per live short slot, in order (Count).  Legacy switches on seeded    *)
(* behaviours of the builder; TLC refutes each.                             *)
(***************************************************************************)
EXTENDS Integers, Sequences, FiniteSets, SequencesExt, TLC, DirSlots, Json

CONSTANTS MaxSlots, Build, Legacy,
          Small,     \* TRUE: a reduced alphabet (for one more slot of depth)
          Gen        \* TRUE: every directory is printed with what the model's reader returns (replayed on the code)

VARIABLES slots, pos, b, out, pc

vars == <<slots, pos, b, out, pc>>

P == 13
NmA == <<84, 65, 82, 71, 69, 84, 32, 32, 84, 88, 84>>          \* "TARGET  TXT"
NmB == <<79, 84, 72, 69, 82, 32, 32, 32, 66, 73, 78>>          \* "OTHER   BIN"
CkA == LfnChecksum(NmA)
CkB == LfnChecksum(NmB)

Pad(u) == u \o [i \in 1..(P - Len(u)) |-> IF i = 1 THEN 0 ELSE 65535]
UnitSets == {[i \in 1..P |-> 96 + i],                 \* thirteen characters, no terminator
             Pad(<<120, 121>>)}                       \* "xy", NUL, 0xFFFF...
            \cup (IF Small THEN {} ELSE {Pad(<<>>)})   \* NUL first (an empty tail)
\* (an order byte 0 would be the END marker of the directory: the invalid index 0 comes with the last flag, 0x40)
Orders == IF Small THEN {64, 1, 2, 3, 65, 66, 67, 68}
          ELSE {64, 1, 2, 3, 65, 66, 67, 33}          \* index 0 (0x40); 1..3; 0x41..0x43 (last flag); 0x21 (bit 5)

LSlot(o, k, u) == [t |-> "L", o |-> o, at |-> 15, ty |-> 0, k |-> k, cl |-> 0, u |-> u]
SSlot(n, at) == [t |-> "S", n |-> n, at |-> at]
Alphabet == {LSlot(o, k, u) : o \in Orders, k \in {CkA, CkB}, u \in UnitSets}
            \cup {SSlot(NmA, 32), SSlot(NmB, 16), SSlot(NmA, 8), [t |-> "D"]}

NewB == [buf |-> IF Build = "fixed" THEN [i \in 1..(20 * P) |-> 0] ELSE <<>>, len |-> 0, chk |-> 0, idx |-> 0, bad |-> FALSE]
BufLen(x) == IF Build = "fixed" THEN x.len ELSE Len(x.buf)
Units0(x) == SubSeq(x.buf, 1, BufLen(x))
\* LfnBuffer::clear / set_len
Clear(x) == IF Build = "fixed" THEN [x EXCEPT !.buf = [i \in 1..(20 * P) |-> 0], !.len = 0, !.idx = 0]
            ELSE [x EXCEPT !.buf = <<>>, !.idx = 0]
ClearL(x) == IF "clear_keeps_index" \in Legacy THEN [Clear(x) EXCEPT !.idx = x.idx] ELSE Clear(x)
SetLen(x, n) == IF Build = "fixed" THEN [x EXCEPT !.len = n]
                ELSE [x EXCEPT !.buf = [i \in 1..n |-> IF i <= Len(x.buf) THEN x.buf[i] ELSE 0]]
\* (a slice that does not lie inside the storage is a panic in the code: remembered in `bad`)
CopyAt(x, p0, u) == [x EXCEPT !.buf = [i \in 1..Len(x.buf) |-> IF i > p0 /\ i <= p0 + P THEN u[i - p0] ELSE x.buf[i]],
                              !.bad = @ \/ p0 + P > Len(x.buf)]

\* LongNameBuilder::process
Process(x, s) ==
   LET last == (s.o \div 64) % 2 = 1
       index == s.o % 32
   IN IF index = 0 \/ index > 20 THEN ClearL(x)
      ELSE IF last THEN CopyAt(SetLen([x EXCEPT !.idx = index, !.chk = s.k], index * P), P * (index - 1), s.u)
      ELSE IF x.idx = 0 \/ index # x.idx - 1 \/ (s.k # x.chk /\ "no_chk_compare" \notin Legacy) THEN ClearL(x)
      ELSE CopyAt([x EXCEPT !.idx = x.idx - 1], P * (index - 1), s.u)
\* validate_chksum + into_buf: the long name returned with a short entry (<<>> = none)
Finish(x, n) ==
   LET y == IF x.idx # 0 /\ LfnChecksum(n) # x.chk THEN ClearL(x) ELSE x
       us == Units0(y)
       z == {i \in 1..Len(us) : us[i] = 0}
       cut == IF z = {} THEN us ELSE SubSeq(us, 1, (CHOOSE i \in z : \A j \in z : i <= j) - 1)
   IN IF y.idx = 1 THEN (IF Len(cut) > 255 THEN <<>> ELSE cut)
      ELSE <<>>

RECURSIVE SeqsUpTo(_)
SeqsUpTo(n) == IF n = 0 THEN {<<>>} ELSE LET r == SeqsUpTo(n - 1) IN r \cup {Append(q, a) : q \in {x \in r : Len(x) = n - 1}, a \in Alphabet}

ShortSlots == {a \in Alphabet : a.t = "S"}
\* (two nested choices: TLC refuses to build one set of more than a million sequences)
Init == /\ \E k \in 0..(MaxSlots - 1) : \E q1 \in [1..(IF k < 2 THEN k ELSE 2) -> Alphabet] : \E q2 \in [1..(IF k < 2 THEN 0 ELSE k - 2) -> Alphabet] :
              \E a \in ShortSlots : slots = Append(q1 \o q2, a)
        /\ pos = 1 /\ b = NewB /\ out = <<>> /\ pc = "read"

\* one iteration of the loop of read_dir_entry (a fresh builder after every returned entry)
Step ==
   /\ pc = "read" /\ pos <= Len(slots)
   /\ LET s == slots[pos]
          skip == s.t = "D" \/ (s.t = "S" /\ IsVol(s))
      IN /\ pos' = pos + 1
         /\ IF skip THEN b' = (IF "skip_keeps_builder" \in Legacy THEN b ELSE ClearL(b)) /\ out' = out
            ELSE IF s.t = "S" THEN out' = Append(out, [i |-> pos, long |-> Finish(b, s.n)]) /\ b' = [NewB EXCEPT !.bad = b.bad]
            ELSE b' = Process(b, s) /\ out' = out
   /\ UNCHANGED <<slots, pc>>
Done == /\ pc = "read" /\ pos > Len(slots) /\ pc' = "end" /\ UNCHANGED <<slots, pos, b, out>>
        /\ (Gen => PrintT(<<"PROG", ToJson([slots |-> slots, pred |-> [j \in 1..Len(out) |-> out[j].long]])>>))
Next == Step \/ Done
Spec == Init /\ [][Next]_vars

(* ---------------- what any reader must return (DirSlots) ---------------- *)
Live(i) == slots[i].t = "S" /\ ~IsVol(slots[i])
Decoded == \A j \in 1..Len(out) : LongNameOk(slots, out[j].i, out[j].long) /\ Len(out[j].long) <= 255
Count == pc = "end" => [j \in 1..Len(out) |-> out[j].i] = SelectSeq([i \in 1..Len(slots) |-> i], Live)
\* the buffer never holds more than 20 slots of units; the index stays in range
Bounded == BufLen(b) <= 20 * P /\ b.idx \in 0..20 /\ ~b.bad
=============================================================================
