----------------------------- MODULE MountImpl -----------------------------
(***************************************************************************)
(* Design level of C07: the acceptance test of FileSystem::new as the code *)
(* performs it (BootSector::validate, BiosParameterBlock::validate_* in    *)
(* their order, the FSInfo signatures), transcribed over the same BPB      *)
(* record the trace specification judges (Geometry!Coherent), in exact     *)
(* arithmetic on limbs.                                                    *)
(*                                                                         *)
(*   ImplAccept(b, strict, fi)  what the code accepts                      *)
(*   Sound      ImplAccept => Coherent        (C07: garbage is never       *)
(*              trusted) on every BPB of a grid of boundary values         *)
(*   Exact      ImplAccept <=> Coherent /\ Extra: the conditions the code   *)
(*              imposes beyond coherence, spelled out (Extra) - so that     *)
(*              the model is neither laxer nor stricter than the code       *)
(* MC_MountImpl enumerates the grid; TraceMount compares ImplAccept with   *)
(* the library's verdict on every recorded mount (drift NOTE).             *)
(***************************************************************************)
EXTENDS Integers, Sequences, FiniteSets, TLC, Geometry

CONSTANT LegacyM      \* subset of {"no_rootc_check" (finding F16), "fat32_needs_rootn0" (seeded C07-7)}: TLC refutes Sound for each

IsFat32I(b) == b.spf16 = 0 /\ ("fat32_needs_rootn0" \in LegacyM => b.rootn = 0)      \* is_fat32(): sectors_per_fat_16 == 0
SpfI(b) == IF IsFat32I(b) THEN b.spf32 ELSE FromInt(b.spf16)
TotalI(b) == IF b.ts16 = 0 THEN b.ts32 ELSE FromInt(b.ts16)
RootSecsI(b) == (b.rootn * 32 + b.bps - 1) \div b.bps
FirstDataI(b) == Add(Add(FromInt(b.rsvd), MulSmall(SpfI(b), b.nfats)), FromInt(RootSecsI(b)))      \* 64-bit in validate_total_sectors
ClustersI(b) == DivSmall(Sub(TotalI(b), FirstDataI(b)), b.spc)
TypeI(n) == IF Lt(n, FromInt(4085)) THEN 12 ELSE IF Lt(n, FromInt(65525)) THEN 16 ELSE 32

Pow2U16(n) == n \in {1, 2, 4, 8, 16, 32, 64, 128, 256, 512, 1024, 2048, 4096, 8192, 16384, 32768}

BpbAccept(b) ==
   /\ b.fsver = 0
   /\ Pow2U16(b.bps) /\ b.bps >= 512 /\ b.bps <= 4096                                   \* validate_bytes_per_sector
   /\ b.spc \in {1, 2, 4, 8, 16, 32, 64, 128}                                            \* validate_sectors_per_cluster (u8 power of two)
   /\ b.rsvd >= 1 /\ (IsFat32I(b) => (b.bks < b.rsvd /\ b.fis < b.rsvd))                \* validate_reserved_sectors
   /\ b.nfats # 0                                                                        \* validate_fats
   /\ (IsFat32I(b) => b.rootn = 0) /\ (~IsFat32I(b) => b.rootn # 0)                      \* validate_root_entries
   /\ (IsFat32I(b) => b.ts16 = 0)                                                        \* validate_total_sectors
   /\ ~(b.ts16 = 0 /\ Eq(b.ts32, Zero))
   /\ ((b.ts16 # 0 /\ ~Eq(b.ts32, Zero)) => Eq(FromInt(b.ts16), b.ts32))
   /\ Lt(FirstDataI(b), TotalI(b))
   /\ (IsFat32I(b) => ~Eq(b.spf32, Zero))                                                \* validate_sectors_per_fat
   /\ LET n == ClustersI(b) IN                                                           \* validate_total_clusters
      /\ IsFat32I(b) = (TypeI(n) = 32)
      /\ (TypeI(n) = 32 => Leq(n, FromInt(268435455)))
      /\ ((IsFat32I(b) /\ "no_rootc_check" \notin LegacyM) => (Leq(FromInt(2), b.rootc) /\ Leq(b.rootc, Add(n, FromInt(1)))))

LeadSig == FromInt(1096897106)                    \* 0x41615252
StrucSig == FromInt(1631679090)                   \* 0x61417272
TrailSig == <<0, 21674, 2, 0, 0>>                 \* 0xAA550000
FsInfoAccept(fi) == fi.inside /\ fi.lead = LeadSig /\ fi.struc = StrucSig /\ fi.trail = TrailSig

\* sig = the two signature bytes of the boot sector; fi = the FSInfo sector as found (FAT32 layouts only)
ImplAccept(b, strict, fi) ==
   /\ (strict => b.sig = <<85, 170>>)
   /\ BpbAccept(b)
   /\ (IsFat32I(b) => FsInfoAccept(fi))

(* ---------------- what the code demands beyond coherence ---------------- *)
Extra(b) ==
   /\ b.fsver = 0
   /\ b.rsvd >= 1
   /\ (IsFat32I(b) => b.rootn = 0 /\ b.ts16 = 0) /\ (~IsFat32I(b) => b.rootn # 0)
   /\ ((b.ts16 # 0 /\ ~Eq(b.ts32, Zero)) => Eq(FromInt(b.ts16), b.ts32))

SafeCoherentB(b) == b.bps \in {512, 1024, 2048, 4096} /\ b.spc \in {1, 2, 4, 8, 16, 32, 64, 128} /\ Coherent(b)
Sound(b) == BpbAccept(b) => SafeCoherentB(b)
Exact(b) == BpbAccept(b) <=> (SafeCoherentB(b) /\ Extra(b))
=============================================================================
