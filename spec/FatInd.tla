------------------------------- MODULE FatInd -------------------------------
(***************************************************************************)
(* The allocation-table algebra behind C03 (chains) and C05 (free count),  *)
(* typed for Apalache, with an INDUCTIVE invariant: checked from an         *)
(* arbitrary table that satisfies it, not only from the tables reachable   *)
(* within a bound.  N clusters (2..N+1); `nxt[c]`: 0 free, -1 end of chain, *)
(* otherwise the next cluster; `heads`: first clusters of the chains that  *)
(* directory entries own; `free`: the cached free count of the library.    *)
(*                                                                         *)
(* Actions are the three table mutations of the library (table.rs):        *)
(*   AllocHead  alloc_cluster(None): a free cluster becomes a one-cluster  *)
(*              chain                                                      *)
(*   Extend     alloc_cluster(Some(tail)): a free cluster is linked behind *)
(*              the last cluster of a chain                                *)
(*   FreeTail   the chain-freeing loop, one step: the last cluster of a    *)
(*              chain is released (its predecessor becomes the end; a      *)
(*              one-cluster chain disappears from `heads`)                 *)
(***************************************************************************)
EXTENDS Integers, FiniteSets

CONSTANT
    \* @type: Int;
    N

VARIABLES
    \* @type: Int -> Int;
    nxt,
    \* @type: Set(Int);
    heads,
    \* @type: Int;
    free,
    \* @type: Int -> Int;
    pos        \* ghost: position of a used cluster in its chain (1 = first), 0 for a free cluster

Cl == 2..(N + 1)
Used == {c \in Cl : nxt[c] # 0}
Preds(c) == {p \in Cl : nxt[p] = c}

ConstInit == N = 6

Init ==
    /\ nxt = [c \in Cl |-> 0]
    /\ heads = {}
    /\ free = N
    /\ pos = [c \in Cl |-> 0]

AllocHead ==
    \E c \in Cl :
        /\ nxt[c] = 0
        /\ nxt' = [nxt EXCEPT ![c] = -1]
        /\ heads' = heads \union {c}
        /\ free' = free - 1
        /\ pos' = [pos EXCEPT ![c] = 1]

Extend ==
    \E t \in Cl : \E c \in Cl :
        /\ nxt[t] = -1
        /\ nxt[c] = 0
        /\ nxt' = [nxt EXCEPT ![t] = c, ![c] = -1]
        /\ heads' = heads
        /\ free' = free - 1
        /\ pos' = [pos EXCEPT ![c] = pos[t] + 1]

FreeTail ==
    \E t \in Cl :
        /\ nxt[t] = -1
        /\ IF t \in heads
           THEN /\ nxt' = [nxt EXCEPT ![t] = 0]
                /\ heads' = heads \ {t}
           ELSE \E p \in Cl :
                /\ nxt[p] = t
                /\ nxt' = [nxt EXCEPT ![p] = -1, ![t] = 0]
                /\ heads' = heads
        /\ free' = free + 1
        /\ pos' = [pos EXCEPT ![t] = 0]

Next == AllocHead \/ Extend \/ FreeTail

TypeOK ==
    /\ nxt \in [Cl -> (Cl \union {0, -1})]
    /\ heads \in SUBSET Cl
    /\ free \in 0..N
    /\ pos \in [Cl -> 0..N]

\* every used cluster has exactly the predecessors a forest of simple chains allows
IndInv ==
    /\ TypeOK
    /\ \A c \in Cl : (nxt[c] = 0) = (pos[c] = 0)                                \* ghost: used clusters have a position
    /\ \A c \in Cl : nxt[c] # 0 => ((c \in heads) = (pos[c] = 1))               \* ghost: heads are exactly the first clusters
    /\ \A c \in Cl : nxt[c] \in Cl => pos[nxt[c]] = pos[c] + 1                   \* ghost: positions grow along links (no cycle)
    /\ \A c \in Cl : nxt[c] # c                                               \* no self link
    /\ \A c \in Cl : nxt[c] \in Cl => nxt[nxt[c]] # 0                          \* links lead to used clusters
    /\ \A c \in heads : nxt[c] # 0 /\ Preds(c) = {}                             \* heads are used and nobody links to them
    /\ \A c \in Cl : (nxt[c] # 0 /\ c \notin heads) => Cardinality(Preds(c)) = 1   \* used non-heads: exactly one predecessor
    /\ \A c \in Cl : nxt[c] = 0 => Preds(c) = {}                                \* nobody links to a free cluster
    /\ free = N - Cardinality(Used)                                             \* C05: the cached count is exact

\* Consequences.  TLC enumerates EVERY table that satisfies IndInv (MC_FatInd: Init == IndInv, no step) and evaluates them with the
\* chain walk of Fat.tla: every chain ends, no two chains share a cluster, every used cluster lies on the chain of exactly one head.
NoCrossLink == \A c \in Cl : Cardinality(Preds(c)) <= 1
FreeExact == free = N - Cardinality(Used)
=============================================================================
