------------------------------ MODULE DirSlots ------------------------------
(***************************************************************************)
(* A directory as a sequence of 32-byte slots before the END marker.       *)
(* Slot records (as the independent decoder splits them, no interpretation)*)
(*   [t |-> "D", x]                                   deleted               *)
(*   [t |-> "L", o, at, ty, k, cl, u (13 units), x]   long-name slot        *)
(*   [t |-> "S", n (11 bytes), at, nt, cl, hi, sz, ct, mt, ad, x]  short    *)
(* This module says what any reader must see (DecodeDir / Class) and what   *)
(* any writer must produce (the run invariants of C03).                     *)
(***************************************************************************)
EXTENDS Integers, Sequences, FiniteSets, SequencesExt, TLC, Names

IsVol(s)  == s.t = "S" /\ (s.at \div 8) % 2 = 1
IsDirS(s) == s.t = "S" /\ (s.at \div 16) % 2 = 1 /\ ~IsVol(s)
IsFileS(s) == s.t = "S" /\ (s.at \div 16) % 2 = 0 /\ ~IsVol(s)
\* attribute byte whose low four bits say "long name" although bits 4/5 are set: readers disagree
AmbiguousAttr(s) == s.t = "S" /\ s.at % 16 = 15

(* ---------------- long-name run classification ---------------- *)
RECURSIVE RunStart(_, _)
RunStart(slots, i) == IF i > 1 /\ slots[i - 1].t = "L" THEN RunStart(slots, i - 1) ELSE i
\* maximal block of consecutive "L" slots immediately before index i
RunBefore(slots, i) == SubSeq(slots, RunStart(slots, i), i - 1)

Idx(s) == s.o % 32                                   \* 5 index bits
IsLast(s) == (s.o \div 64) % 2 = 1

\* strict well-formedness: orders n|0x40, n-1, .., 1
OrdersOk(run) ==
   LET n == Len(run) IN
   /\ n >= 1 /\ n <= 20
   /\ IsLast(run[1])
   /\ \A k \in 1..n : Idx(run[k]) = n - k + 1
   /\ \A k \in 2..n : ~IsLast(run[k])
ChkOk(run, raw) == LET c == LfnChecksum(raw) IN \A k \in 1..Len(run) : run[k].k = c
\* nothing unusual in the fields no reader should look at
Clean(run) == \A k \in 1..Len(run) : run[k].ty = 0 /\ run[k].cl = 0 /\ run[k].o < 128 /\ (run[k].o \div 32) % 2 = 0
Units(run) == FlattenSeq([k \in 1..Len(run) |-> run[Len(run) - k + 1].u])
CutAtNul(u) == LET z == {i \in 1..Len(u) : u[i] = 0} IN
               IF z = {} THEN u ELSE SubSeq(u, 1, (CHOOSE i \in z : \A j \in z : i <= j) - 1)
\* after the first NUL only 0xFFFF
PadRegular(u) == LET z == {i \in 1..Len(u) : u[i] = 0} IN
                 z = {} \/ (LET f == CHOOSE i \in z : \A j \in z : i <= j IN \A j \in (f + 1)..Len(u) : u[j] = 65535)
\* a writer pads minimally: the name occupies exactly ceil(len/13) slots
PadMinimal(u) == LET nm == CutAtNul(u) IN Len(u) = ((Len(nm) + 12) \div 13) * 13 /\ Len(nm) >= 1

RunSuffixes(run) == {SubSeq(run, k, Len(run)) : k \in 1..Len(run)}

\* classification of the run before the short slot at index i:
\*   [c |-> "none" | "valid" | "grey" | "broken", name |-> units]
ChkAll(run, c) == \A k \in 1..Len(run) : run[k].k = c
Class(slots, i) ==
   LET run == RunBefore(slots, i)
       c == LfnChecksum(slots[i].n)
       Finish(r) ==
          LET us == Units(r)
              nm == CutAtNul(us)
          IN IF r = run /\ Clean(r) /\ PadRegular(us) /\ Len(nm) >= 1 /\ Len(nm) <= 255
             THEN [c |-> "valid", name |-> nm] ELSE [c |-> "grey", name |-> nm]
   IN IF run = <<>> THEN [c |-> "none", name |-> <<>>]
      ELSE IF OrdersOk(run) /\ ChkAll(run, c) THEN Finish(run)            \* the common case, no search
      ELSE LET good == {r \in RunSuffixes(run) : OrdersOk(r) /\ ChkAll(r, c)} IN
           IF good = {} THEN [c |-> "broken", name |-> <<>>]
           ELSE Finish(CHOOSE x \in good : \A y \in good : Len(y) <= Len(x))   \* longest complete suffix

\* verdict on what a reader returned as long name (lib = <<>> means "no long name")
LongNameOk(slots, i, lib) ==
   LET k == Class(slots, i) IN
   CASE k.c = "none"   -> lib = <<>>
     [] k.c = "broken" -> lib = <<>>
     [] k.c = "valid"  -> lib = k.name
     [] k.c = "grey"   -> lib = <<>> \/ (Len(lib) <= 255 /\ lib = k.name)

(* ---------------- decoded entries ---------------- *)
SIdx(slots) == SelectSeq([i \in 1..Len(slots) |-> i], LAMBDA i : slots[i].t = "S")

\* one record per short slot, in slot order
Entries(slots) ==
   LET idx == SIdx(slots) IN
   [j \in 1..Len(idx) |->
      LET i == idx[j]
          s == slots[i]
          k == Class(slots, i)
      IN [i |-> i, first |-> RunStart(slots, i), s |-> s, cls |-> k.c, long |-> k.name,
          vol |-> IsVol(s), dir |-> IsDirS(s),
          dot |-> IF IsDotName(s.n) THEN 1 ELSE IF IsDotDotName(s.n) THEN 2 ELSE 0]]

(* ---------------- writer-side invariants (C03) ---------------- *)
\* every block of consecutive L slots is immediately followed by a short slot (no orphan runs)
NoOrphanRuns(slots) ==
   \A i \in 1..Len(slots) : slots[i].t = "L" => (i < Len(slots) /\ slots[i + 1].t \in {"L", "S"})
\* C03.lfn_order: the run before every short slot is complete and correctly ordered (or absent)
RunsOrdered(slots) ==
   \A i \in 1..Len(slots) : slots[i].t = "S" =>
      LET run == RunBefore(slots, i) IN run = <<>> \/ OrdersOk(run)
\* C03.lfn_chk
RunsChecksummed(slots) ==
   \A i \in 1..Len(slots) : slots[i].t = "S" =>
      LET run == RunBefore(slots, i) IN run = <<>> \/ ChkOk(run, slots[i].n)
\* C03.lfn_pad: NUL terminator then 0xFFFF, minimal number of slots, clean reserved fields
RunsPadded(slots) ==
   \A i \in 1..Len(slots) : slots[i].t = "S" =>
      LET run == RunBefore(slots, i) IN
      run = <<>> \/ (~OrdersOk(run)) \/ (LET us == Units(run) IN PadRegular(us) /\ PadMinimal(us) /\ Clean(run))

\* is there a run of k free slots: k consecutive deleted slots, or deleted slots reaching the END
\* marker plus the unused tail (cap = capacity of the directory in slots; 0 = can grow)
HasFreeRun(slots, cap, k) ==
   LET n == Len(slots)
       freeAt(i) == i > n \/ slots[i].t = "D"
   IN \E a \in 1..(n + 1) : a + k - 1 <= cap /\ \A j \in a..(a + k - 1) : freeAt(j)
=============================================================================
