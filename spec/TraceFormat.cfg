SPECIFICATION Spec
POSTCONDITION TraceAccepted
CHECK_DEADLOCK FALSE
CONSTANT LegacyF = {}
