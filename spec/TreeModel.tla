----------------------------- MODULE TreeModel -----------------------------
(***************************************************************************)
(* The reference of C01/C02: a plain in-memory tree with case-insensitive, *)
(* case-preserving names, and files as byte (cell) sequences with a        *)
(* cursor.  It knows nothing about clusters, slots or tables.              *)
(*                                                                         *)
(* Model state m (a record):                                               *)
(*   nodes : id -> [par, name, keys, kind, data, ct, mt, ad]   (root = 0)  *)
(*   next  : next fresh id                                                 *)
(*   fh    : file-handle name -> [node, pos, dirty]                        *)
(*   dh    : dir-handle name  -> node id                                   *)
(* An operation is described by its *outcome*: the set of error kinds that *)
(* must be reported (mand: any member is acceptable, Ok is not), the set   *)
(* that may be reported (opt), and the state after success.                *)
(***************************************************************************)
EXTENDS Integers, Sequences, FiniteSets, SequencesExt, TLC, Names

CONSTANT FoldTab          \* record "code" |-> upper-case expansion; <<>> for ASCII-only folding

Key(us) == FoldKeyWith(FoldTab, us)

EmptyModel == [nodes |-> <<>>, next |-> 1, fh |-> <<>>, dh |-> <<>>]

Ids(m) == DOMAIN m.nodes
Kids(m, p) == {i \in Ids(m) : m.nodes[i].par = p}
MatchIn(m, p, key) == {i \in Kids(m, p) : key \in m.nodes[i].keys}
IsDirNode(m, i) == i = 0 \/ (i \in Ids(m) /\ m.nodes[i].kind = "d")

RECURSIVE IsAncestorOrSelf(_, _, _, _)
IsAncestorOrSelf(m, a, i, fuel) ==       \* is a an ancestor of i (or i itself)?
   IF i = a THEN TRUE ELSE IF i = 0 \/ fuel = 0 THEN FALSE ELSE IsAncestorOrSelf(m, a, m.nodes[i].par, fuel - 1)

RECURSIVE PathOf(_, _, _)
PathOf(m, i, fuel) ==                    \* sequence of names (exact units, case preserved) from the root
   IF i = 0 \/ fuel = 0 THEN <<>> ELSE Append(PathOf(m, m.nodes[i].par, fuel - 1), m.nodes[i].name)

IsSpecial(nm) == nm = <<46>> \/ nm = <<46, 46>>          \* "." and ".." : out of the explored contract

(* ---------------- path walk ---------------- *)
\* walk comps[1..k] as directories starting at node start; result [err, node]
RECURSIVE WalkDirs(_, _, _, _)
WalkDirs(m, start, comps, k) ==
   IF k = 0 THEN [err |-> "none", node |-> start]
   ELSE LET up == WalkDirs(m, start, comps, k - 1) IN
        IF up.err # "none" THEN up
        ELSE LET hit == MatchIn(m, up.node, Key(comps[k])) IN
             IF hit = {} THEN [err |-> "NotFound", node |-> 0]
             ELSE LET i == CHOOSE x \in hit : TRUE IN
                  IF m.nodes[i].kind = "d" THEN [err |-> "none", node |-> i]
                  ELSE [err |-> "InvalidInput", node |-> 0]

\* resolve all but the last component; result [err, par, last, hit (set of matching children)]
Resolve(m, start, comps) ==
   IF comps = <<>> THEN [err |-> "empty", par |-> start, last |-> <<>>, hit |-> {}]
   ELSE LET w == WalkDirs(m, start, comps, Len(comps) - 1)
            nm == comps[Len(comps)]
        IN IF w.err # "none" THEN [err |-> w.err, par |-> 0, last |-> nm, hit |-> {}]
           ELSE [err |-> "none", par |-> w.node, last |-> nm, hit |-> MatchIn(m, w.node, Key(nm))]

HasSpecial(comps) == \E i \in 1..Len(comps) : IsSpecial(comps[i])

OpenNodes(m) == {m.fh[h].node : h \in DOMAIN m.fh}
\* directory handles (and their ancestors' identity) stay valid across renames; a directory that is
\* removed or moved while a handle to it (or into it) exists is out of contract
DirHandleNodes(m) == {m.dh[h] : h \in DOMAIN m.dh}

SlotsFor(nm) == ((Len(nm) + 12) \div 13) + 1

(***************************************************************************)
(* Namespace operations.  Outcome record:                                  *)
(*   ooc  : the call is outside the documented contract (not judged)       *)
(*   mand : error kinds of which one MUST be returned ({} = must succeed,  *)
(*          unless an optional one applies)                                *)
(*   space: [par |-> directory that receives an entry, slots, clusters]    *)
(*          when the call may legitimately run out of space, else "none"   *)
(*   fx   : effect description used to build the next state on success     *)
(***************************************************************************)
NoSpace == [par |-> -1, slots |-> 0, clusters |-> 0]

CreateOutcome(m, start, comps, kind) ==
   LET r == Resolve(m, start, comps) IN
   IF HasSpecial(comps) THEN [ooc |-> TRUE, mand |-> {}, space |-> NoSpace, fx |-> [t |-> "none"]]
   ELSE IF r.err = "empty" THEN [ooc |-> FALSE, mand |-> {"InvalidFileNameLength"}, space |-> NoSpace, fx |-> [t |-> "none"]]
   ELSE IF r.err # "none" THEN [ooc |-> FALSE, mand |-> {r.err}, space |-> NoSpace, fx |-> [t |-> "none"]]
   \* C15: the name decides whether it is acceptable, not the directory: an invalid name is rejected with a name error even when its
   \* upper-case form is that of an existing entry (130 dotless i are 260 bytes, and fold to 130 I)
   ELSE IF NameErrors(r.last) # {} THEN [ooc |-> FALSE, mand |-> NameErrors(r.last), space |-> NoSpace, fx |-> [t |-> "none"]]
   ELSE IF r.hit # {} THEN
        LET i == CHOOSE x \in r.hit : TRUE IN
        IF m.nodes[i].kind # kind THEN [ooc |-> FALSE, mand |-> {"InvalidInput"}, space |-> NoSpace, fx |-> [t |-> "none"]]
        ELSE [ooc |-> kind = "f" /\ i \in OpenNodes(m), mand |-> {}, space |-> NoSpace, fx |-> [t |-> "open", node |-> i]]
   ELSE [ooc |-> FALSE, mand |-> {},
         space |-> [par |-> r.par, slots |-> SlotsFor(r.last), clusters |-> IF kind = "d" THEN 2 ELSE 1],
         fx |-> [t |-> "create", par |-> r.par, name |-> r.last, kind |-> kind]]

OpenOutcome(m, start, comps, kind) ==
   LET r == Resolve(m, start, comps) IN
   IF HasSpecial(comps) THEN [ooc |-> TRUE, mand |-> {}, space |-> NoSpace, fx |-> [t |-> "none"]]
   ELSE IF r.err = "empty" THEN
        \* an empty path names nothing (or, for a directory, the directory itself)
        IF kind = "d" THEN [ooc |-> FALSE, mand |-> {}, space |-> NoSpace, fx |-> [t |-> "open_or", node |-> start, errs |-> {"NotFound"}]]
        ELSE [ooc |-> FALSE, mand |-> {"NotFound", "InvalidInput"}, space |-> NoSpace, fx |-> [t |-> "none"]]
   ELSE IF r.err # "none" THEN [ooc |-> FALSE, mand |-> {r.err}, space |-> NoSpace, fx |-> [t |-> "none"]]
   ELSE IF r.hit = {} THEN [ooc |-> FALSE, mand |-> {"NotFound"}, space |-> NoSpace, fx |-> [t |-> "none"]]
   ELSE LET i == CHOOSE x \in r.hit : TRUE IN
        IF m.nodes[i].kind # kind THEN [ooc |-> FALSE, mand |-> {"InvalidInput"}, space |-> NoSpace, fx |-> [t |-> "none"]]
        ELSE [ooc |-> kind = "f" /\ i \in OpenNodes(m), mand |-> {}, space |-> NoSpace, fx |-> [t |-> "open", node |-> i]]

RemoveOutcome(m, start, comps) ==
   LET r == Resolve(m, start, comps) IN
   IF HasSpecial(comps) THEN [ooc |-> TRUE, mand |-> {}, space |-> NoSpace, fx |-> [t |-> "none"]]
   ELSE IF r.err = "empty" THEN [ooc |-> FALSE, mand |-> {"NotFound"}, space |-> NoSpace, fx |-> [t |-> "none"]]
   ELSE IF r.err # "none" THEN [ooc |-> FALSE, mand |-> {r.err}, space |-> NoSpace, fx |-> [t |-> "none"]]
   ELSE IF r.hit = {} THEN [ooc |-> FALSE, mand |-> {"NotFound"}, space |-> NoSpace, fx |-> [t |-> "none"]]
   ELSE LET i == CHOOSE x \in r.hit : TRUE IN
        IF m.nodes[i].kind = "d" /\ Kids(m, i) # {} THEN [ooc |-> FALSE, mand |-> {"DirectoryIsNotEmpty"}, space |-> NoSpace, fx |-> [t |-> "none"]]
        ELSE [ooc |-> i \in OpenNodes(m) \/ i \in DirHandleNodes(m), mand |-> {}, space |-> NoSpace, fx |-> [t |-> "remove", node |-> i]]

RenameOutcome(m, start, comps, dstart, dcomps) ==
   LET s == Resolve(m, start, comps)
       d == Resolve(m, dstart, dcomps)
       none == [t |-> "none"]
   IN
   IF HasSpecial(comps) \/ HasSpecial(dcomps) THEN [ooc |-> TRUE, mand |-> {}, space |-> NoSpace, fx |-> none]
   ELSE
   LET serr == IF s.err = "empty" THEN {"NotFound"} ELSE IF s.err # "none" THEN {s.err}
               ELSE IF s.hit = {} THEN {"NotFound"} ELSE {}
       derr == IF d.err = "empty" THEN {"InvalidFileNameLength"} ELSE IF d.err # "none" THEN {d.err} ELSE {}
       src  == IF serr = {} THEN CHOOSE x \in s.hit : TRUE ELSE -1
       same == serr = {} /\ derr = {} /\ d.hit = {src}
       dname == IF derr = {} THEN NameErrors(d.last) ELSE {}            \* (C15: whether or not something answers to that name)
       exists == IF derr = {} /\ dname = {} /\ d.hit # {} /\ ~same THEN {"AlreadyExists"} ELSE {}
       \* a directory cannot become its own descendant (no in-memory tree can do that)
       cyc == IF serr = {} /\ derr = {} /\ ~same /\ m.nodes[src].kind = "d" /\ IsAncestorOrSelf(m, src, d.par, 64)
              THEN {"InvalidInput"} ELSE {}
       mand == serr \cup derr \cup dname \cup exists \cup cyc
   IN IF mand # {} THEN [ooc |-> FALSE, mand |-> mand, space |-> NoSpace, fx |-> none]
      ELSE IF same THEN [ooc |-> FALSE, mand |-> {}, space |-> NoSpace, fx |-> [t |-> "noop"]]
      ELSE [ooc |-> src \in OpenNodes(m) \/ src \in DirHandleNodes(m), mand |-> {},
            space |-> [par |-> d.par, slots |-> SlotsFor(d.last), clusters |-> 1],
            fx |-> [t |-> "rename", node |-> src, par |-> d.par, name |-> d.last]]

ListOutcome(m, start, comps) ==
   IF HasSpecial(comps) THEN [ooc |-> TRUE, mand |-> {}, node |-> 0]
   ELSE LET w == WalkDirs(m, start, comps, Len(comps)) IN
        IF w.err # "none" THEN [ooc |-> FALSE, mand |-> {w.err}, node |-> 0]
        ELSE [ooc |-> FALSE, mand |-> {}, node |-> w.node]

(* ---------------- effects ---------------- *)
\* new node; the alias key (observed, constrained by C16) is added by the caller
NewNode(par, name, kind, stamp) ==
   [par |-> par, name |-> name, keys |-> {Key(name)}, kind |-> kind, data |-> <<>>,
    ct |-> stamp.ct, mt |-> stamp.mt, mtAlt |-> stamp.mt, ad |-> stamp.ad]

ApplyCreate(m, fx, stamp) ==
   LET id == m.next IN
   [m EXCEPT !.nodes = [i \in Ids(m) \cup {id} |-> IF i = id THEN NewNode(fx.par, fx.name, fx.kind, stamp) ELSE m.nodes[i]],
             !.next = id + 1]

ApplyRemove(m, i) == [m EXCEPT !.nodes = Restrict(m.nodes, Ids(m) \ {i})]

ApplyRename(m, fx) ==
   [m EXCEPT !.nodes[fx.node].par = fx.par, !.nodes[fx.node].name = fx.name, !.nodes[fx.node].keys = {Key(fx.name)}]

AddFileHandle(m, h, node) ==
   IF h = "" THEN m
   ELSE [m EXCEPT !.fh = [x \in DOMAIN m.fh \cup {h} |-> IF x = h THEN [node |-> node, pos |-> 0, dirty |-> FALSE] ELSE m.fh[x]]]
AddDirHandle(m, h, node) ==
   IF h = "" THEN m
   ELSE [m EXCEPT !.dh = [x \in DOMAIN m.dh \cup {h} |-> IF x = h THEN node ELSE m.dh[x]]]
DropFileHandle(m, h) == [m EXCEPT !.fh = Restrict(m.fh, DOMAIN m.fh \ {h})]
DropDirHandle(m, h) == [m EXCEPT !.dh = Restrict(m.dh, DOMAIN m.dh \ {h})]

(***************************************************************************)
(* File operations on a handle [node, pos, dirty] (C02).  Positions and    *)
(* lengths are in cells.                                                   *)
(***************************************************************************)
Size(m, h) == Len(m.nodes[m.fh[h].node].data)

\* read: k cells returned; must be 0 iff nothing was asked or nothing remains, never more than remain
ReadLenOk(m, h, want, k) ==
   LET rem == Size(m, h) - m.fh[h].pos IN
   IF want = 0 \/ rem = 0 THEN k = 0 ELSE k >= 1 /\ k <= want /\ k <= rem
ReadBytes(m, h, k) == SubSeq(m.nodes[m.fh[h].node].data, m.fh[h].pos + 1, m.fh[h].pos + k)
AfterRead(m, h, k) == [m EXCEPT !.fh[h].pos = @ + k]

\* write k cells of buf at the cursor: overwrite or extend
WriteData(old, pos, buf, k) ==
   SubSeq(old, 1, pos) \o SubSeq(buf, 1, k) \o (IF pos + k < Len(old) THEN SubSeq(old, pos + k + 1, Len(old)) ELSE <<>>)
AfterWrite(m, h, buf, k) ==
   LET n == m.fh[h].node IN
   IF k = 0 THEN m
   ELSE [m EXCEPT !.nodes[n].data = WriteData(@, m.fh[h].pos, buf, k), !.fh[h].pos = @ + k, !.fh[h].dirty = TRUE]

\* seek: "none" = rejected (InvalidInput), otherwise the new position
SeekTarget(m, h, from, off) ==
   LET base == IF from = "start" THEN 0 ELSE IF from = "end" THEN Size(m, h) ELSE m.fh[h].pos
       t == base + off
   IN IF t < 0 THEN -1 ELSE IF t > Size(m, h) THEN Size(m, h) ELSE t
AfterSeek(m, h, p) == [m EXCEPT !.fh[h].pos = p]

AfterTruncate(m, h) ==
   LET n == m.fh[h].node IN
   [m EXCEPT !.nodes[n].data = SubSeq(@, 1, m.fh[h].pos), !.fh[h].dirty = TRUE]

AfterFlush(m, h) == [m EXCEPT !.fh[h].dirty = FALSE]

(* ---------------- the tree as a set of facts (for comparisons) ---------------- *)
\* one fact per node: path of names as stored (case preserved), kind, and (files) content
TreeFacts(m) ==
   {[p |-> PathOf(m, i, 64), k |-> m.nodes[i].kind,
     d |-> IF m.nodes[i].kind = "f" THEN m.nodes[i].data ELSE <<>>] : i \in Ids(m)}
\* nodes whose on-disk entry may lag behind (deferred write-back while a handle is dirty)
DirtyNodes(m) == {m.fh[h].node : h \in {x \in DOMAIN m.fh : m.fh[x].dirty}}
=============================================================================
