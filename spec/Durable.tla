------------------------------ MODULE Durable ------------------------------
(***************************************************************************)
(* C14 at design level: the flush protocol of a file handle on a storage   *)
(* with a write-back cache that honours flush.                             *)
(*                                                                         *)
(* The storage is a durable image plus an ordered cache of writes not yet  *)
(* durable.  Flush makes the whole cache durable.  A power cut keeps a     *)
(* prefix of the cache.  A write(k) of the library issues the data write   *)
(* and changes the size only in memory (deferred entry write-back);        *)
(* File::flush writes the entry back and then flushes the storage.         *)
(* Skip \subseteq {"entry", "devflush"} removes a step of the protocol: TLC *)
(* shows that both are necessary and that together they are sufficient.    *)
(***************************************************************************)
EXTENDS Integers, Sequences, FiniteSets, TLC

CONSTANTS MaxWrites, Skip

VARIABLES disk,      \* durable image: [data |-> seq of versions per block.., size |-> n]
          cache,     \* sequence of pending device writes
          mem,       \* in-memory handle: [size, dirty]
          promised,  \* size (= content version) a successful flush has promised, or -1
          nw, crashed

vars == <<disk, cache, mem, promised, nw, crashed>>

\* the file is modelled by its length: block i holds version i; content up to size is what a reader sees
Init == /\ disk = [data |-> 0, size |-> 0]       \* data = number of blocks whose bytes are on the medium
        /\ cache = <<>> /\ mem = [size |-> 0, dirty |-> FALSE] /\ promised = -1 /\ nw = 0 /\ crashed = FALSE

ApplyW(d, w) == IF w.t = "data" THEN [d EXCEPT !.data = IF w.n > @ THEN w.n ELSE @]
                ELSE [d EXCEPT !.size = w.n]

\* File::write of one more block: the data goes to the storage, the size stays in memory
Write == /\ ~crashed /\ nw < MaxWrites
         /\ cache' = Append(cache, [t |-> "data", n |-> mem.size + 1])
         /\ mem' = [size |-> mem.size + 1, dirty |-> TRUE]
         /\ nw' = nw + 1
         /\ promised' = -1                                   \* the file was modified again: nothing is promised any more
         /\ UNCHANGED <<disk, crashed>>

\* File::flush = entry write-back, then storage flush; returns successfully
FlushFile ==
   /\ ~crashed
   /\ LET c1 == IF mem.dirty /\ "entry" \notin Skip THEN Append(cache, [t |-> "entry", n |-> mem.size]) ELSE cache IN
      IF "devflush" \in Skip
      THEN /\ cache' = c1 /\ UNCHANGED disk
      ELSE /\ cache' = <<>>
           /\ disk' = LET RECURSIVE Fold(_, _)
                          Fold(d, i) == IF i > Len(c1) THEN d ELSE Fold(ApplyW(d, c1[i]), i + 1)
                      IN Fold(disk, 1)
   /\ mem' = [mem EXCEPT !.dirty = FALSE]
   /\ promised' = mem.size
   /\ UNCHANGED <<nw, crashed>>

\* power cut: some prefix of the cache reaches the medium
Crash == /\ ~crashed
         /\ \E k \in 0..Len(cache) :
              disk' = LET RECURSIVE Fold(_, _)
                          Fold(d, i) == IF i > k THEN d ELSE Fold(ApplyW(d, cache[i]), i + 1)
                      IN Fold(disk, 1)
         /\ cache' = <<>> /\ crashed' = TRUE
         /\ UNCHANGED <<mem, promised, nw>>

Next == Write \/ FlushFile \/ Crash
Spec == Init /\ [][Next]_vars

\* C14: after a crash a fresh mount finds the promised content (size recorded in the entry, bytes present)
Durable == (crashed /\ promised # -1) => (disk.size = promised /\ disk.data >= promised)
\* the entry never claims bytes that are not on the medium after a crash following a successful flush
=============================================================================
