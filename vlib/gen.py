"""Program generators.  A program is a dict {id, cfg, ops}; see harness/src/exec.rs for the op set.
Generators keep a light shadow of the tree only to stay inside the documented contract (one handle
per file, no remove/rename of an object with a live handle); the verdicts are TLC's."""
import random


# ------------------------------------------------------------------------------------------------
# volume configurations

def fmt(size, bps=512, bpc=None, fats=2, root=None, ft=None, tail=0, **kw):
    v = {"kind": "format", "size": size, "bps": bps, "fats": fats}
    if bpc is not None:
        v["bpc"] = bpc
    if root is not None:
        v["root"] = root
    if ft is not None:
        v["ft"] = ft
    if tail:
        v["tail"] = tail
    v.update(kw)
    return v


def K(name):
    """the configuration grid of DESIGN section 7"""
    if name == "K1":  # FAT12, 512/1, 1 FAT, 16-slot root, ~20 clusters
        return {"vol": fmt(23 * 512, bpc=512, fats=1, root=16)}
    if name == "K1b":  # FAT12, 2 FATs, 16-slot root, ~30 clusters, embedded in a larger device
        return {"vol": fmt(36 * 512, bpc=512, fats=2, root=16, tail=8192)}
    if name == "K2":  # FAT12, 512/2, 2 FATs, 40-slot root (ends inside a sector: the root area is rounded up to 3 sectors), ~60 clusters
        return {"vol": fmt((1 + 2 + 3 + 120) * 512, bpc=1024, fats=2, root=40)}
    if name == "K3":  # FAT16 512/1 (>= 4085 clusters)
        return {"vol": fmt(4300 * 512, bpc=512, fats=2, root=512, ft=16)}
    if name == "K4":  # FAT16, 4096-byte sectors
        return {"vol": fmt(4300 * 4096, bps=4096, bpc=4096, fats=2, root=128, ft=16)}
    if name == "K4b":  # FAT16, 1024-byte sectors, 4 sectors per cluster
        return {"vol": fmt(4200 * 4096, bps=1024, bpc=4096, fats=1, root=64, ft=16)}
    if name == "K6":  # FAT16 with the largest cluster the format allows for 512-byte sectors: 128 sectors = 64 KiB (does not fit 16 bits)
        return {"vol": fmt((4200 * 128 + 700) * 512, bpc=65536, fats=2, root=512, ft=16), "cell": 8192}
    if name == "K5":  # FAT32 512/1 (>= 65525 clusters), 2 FATs
        return {"vol": fmt(67000 * 512, bpc=512, fats=2, ft=32)}
    if name == "K5b":  # FAT32 with 1 FAT and 1024-byte clusters
        return {"vol": fmt(2 * 66500 * 512, bpc=1024, fats=1, ft=32)}
    raise KeyError(name)


def with_cfg(base, **kw):
    c = dict(base)
    c.update(kw)
    return c


# ------------------------------------------------------------------------------------------------
# shadow tree (generator-side only)

class Shadow:
    def __init__(self):
        self.nodes = {(): "d"}  # path of upper-cased names -> kind
        self.names = {}
        self.open_files = {}  # handle -> path
        self.dir_handles = {}  # handle -> path
        self.nh = 0

    @staticmethod
    def key(name):
        return name.upper()

    def split(self, path):
        return tuple(self.key(c) for c in path.split("/") if c)

    def resolve(self, at, path):
        base = self.dir_handles.get(at, ()) if at else ()
        return tuple(base) + self.split(path)

    def exists(self, p):
        return p in self.nodes

    def kind(self, p):
        return self.nodes.get(p)

    def children(self, p):
        return [q for q in self.nodes if len(q) == len(p) + 1 and q[: len(p)] == p]

    def busy(self, p):
        """object has a live handle, or a handle lives inside it"""
        for q in list(self.open_files.values()) + list(self.dir_handles.values()):
            if q[: len(p)] == p:
                return True
        return False

    def is_open(self, p):
        return p in self.open_files.values()

    def new_handle(self, prefix):
        self.nh += 1
        return "%s%d" % (prefix, self.nh)

    def rename(self, src, dst):
        moved = {}
        for q, k in list(self.nodes.items()):
            if q[: len(src)] == src:
                moved[dst + q[len(src):]] = k
                del self.nodes[q]
        self.nodes.update(moved)


NAMES_ASCII = ["a", "A", "b", "Bb", "LongFileName-xyz.txt", "longfilename-XYZ.TXT", "file.txt", "x y.z"]
NAMES_UNI = ["été", "ÉTÉ", "straße", "STRASSE", "ǆ.t", "жук"]
# lengths at the edges of the long-name encoding: the longest legal name (255 units, 20 slots) in two spellings of one fold class, one unit
# less, exactly 13 and 26 units (no terminator in the last slot)
NAMES_EDGE = ["M" * 251 + ".dat", "m" * 251 + ".DAT", "n" * 254, "thirteen.char", "twenty-six characters.name"]


def rand_path(rng, sh, names, depth_bias=0.5):
    """a path built from existing directories plus one component"""
    dirs = [p for p, k in sh.nodes.items() if k == "d"]
    d = rng.choice(dirs) if rng.random() < depth_bias else ()
    return d


def path_str(rng, comps, decorate=True):
    s = "/".join(comps)
    if decorate:
        r = rng.random()
        if r < 0.05:
            s = "/" + s
        elif r < 0.10:
            s = s + "/"
        elif r < 0.13 and "/" in s:
            s = s.replace("/", "//", 1)
    return s


def ns_program(rng, pid, cfg, n_ops, names, with_io=True, stats_p=0.05, max_depth=3):
    """random namespace program with a few file writes"""
    sh = Shadow()
    # real (case-preserving) name per shadow path component, for building paths that exist
    real = {(): ()}
    ops = []

    def existing(kind=None, include_root=False):
        c = [p for p, k in sh.nodes.items() if (kind is None or k == kind) and (include_root or p != ())]
        return c

    def real_path(p, vary_case=True):
        comps = []
        for i in range(len(p)):
            nm = real[p[: i + 1]]
            if vary_case and rng.random() < 0.3:
                nm = nm.upper() if rng.random() < 0.5 else nm.lower()
                # keep only variants that still fold to the same key
                if Shadow.key(nm) != p[i]:
                    nm = real[p[: i + 1]]
            comps.append(nm)
        return comps

    def pick_target(new_ok=True):
        """returns (dir path tuple, name) - name new or existing"""
        dirs = [p for p in existing("d", include_root=True) if len(p) < max_depth]
        d = rng.choice(dirs)
        if new_ok and rng.random() < 0.6:
            return d, rng.choice(names)
        kids = sh.children(d)
        if kids and rng.random() < 0.8:
            return d, real[rng.choice(kids)]
        return d, rng.choice(names)

    for _ in range(n_ops):
        r = rng.random()
        at = ""
        base = ()
        if sh.dir_handles and rng.random() < 0.3:
            at = rng.choice(list(sh.dir_handles))
            base = sh.dir_handles[at]
        if r < 0.22:  # create_file
            d, nm = pick_target()
            if d[: len(base)] != base:
                at, base = "", ()
            p = d + (Shadow.key(nm),)
            path = path_str(rng, real_path(d)[len(base):] + [nm])
            op = {"op": "create_file", "at": at, "path": path}
            ex = sh.kind(p)
            if ex == "f" and sh.is_open(p):
                continue
            h = sh.new_handle("h")
            op["as"] = h
            ops.append(op)
            ok = ex == "f" or (ex is None)
            if ok:
                if ex is None:
                    sh.nodes[p] = "f"
                    real[p] = nm
                sh.open_files[h] = p
                if with_io and rng.random() < 0.7:
                    ops.append({"op": "write_all", "h": h, "pat": rng.randrange(1000), "len": rng.choice([1, 5, 100, 511, 512, 513, 700, 1025])})
                if rng.random() < 0.75:
                    ops.append({"op": "close", "h": h})
                    del sh.open_files[h]
        elif r < 0.37:  # create_dir
            d, nm = pick_target()
            if d[: len(base)] != base:
                at, base = "", ()
            p = d + (Shadow.key(nm),)
            path = path_str(rng, real_path(d)[len(base):] + [nm])
            op = {"op": "create_dir", "at": at, "path": path}
            ex = sh.kind(p)
            if rng.random() < 0.3:
                h = sh.new_handle("d")
                op["as"] = h
            ops.append(op)
            if ex is None or ex == "d":
                if ex is None:
                    sh.nodes[p] = "d"
                    real[p] = nm
                if "as" in op:
                    sh.dir_handles[op["as"]] = p
        elif r < 0.47:  # open_file / open_dir
            d, nm = pick_target(new_ok=False)
            if d[: len(base)] != base:
                at, base = "", ()
            p = d + (Shadow.key(nm),)
            path = path_str(rng, real_path(d)[len(base):] + [nm])
            if rng.random() < 0.5:
                if sh.kind(p) == "f" and sh.is_open(p):
                    continue
                h = sh.new_handle("h")
                ops.append({"op": "open_file", "at": at, "path": path, "as": h})
                if sh.kind(p) == "f":
                    sh.open_files[h] = p
                    ops.append({"op": "read_all", "h": h, "len": rng.choice([1, 512, 2000])})
                    if rng.random() < 0.8:
                        ops.append({"op": "close", "h": h})
                        del sh.open_files[h]
            else:
                h = sh.new_handle("d")
                ops.append({"op": "open_dir", "at": at, "path": path, "as": h})
                if sh.kind(p) == "d":
                    sh.dir_handles[h] = p
        elif r < 0.55:  # list
            dirs = existing("d", include_root=True)
            d = rng.choice(dirs)
            if d[: len(base)] != base:
                at, base = "", ()
            ops.append({"op": "list", "at": at, "path": path_str(rng, real_path(d)[len(base):])})
        elif r < 0.72:  # remove
            d, nm = pick_target(new_ok=False)
            if d[: len(base)] != base:
                at, base = "", ()
            p = d + (Shadow.key(nm),)
            if sh.exists(p) and sh.busy(p):
                continue
            path = path_str(rng, real_path(d)[len(base):] + [nm])
            ops.append({"op": "remove", "at": at, "path": path})
            if sh.exists(p) and not (sh.kind(p) == "d" and sh.children(p)):
                del sh.nodes[p]
        elif r < 0.90:  # rename
            d, nm = pick_target(new_ok=False)
            if d[: len(base)] != base:
                at, base = "", ()
            sp = d + (Shadow.key(nm),)
            if sh.exists(sp) and sh.busy(sp):
                continue
            d2, nm2 = pick_target()
            to = ""
            base2 = ()
            if sh.dir_handles and rng.random() < 0.3:
                to = rng.choice(list(sh.dir_handles))
                base2 = sh.dir_handles[to]
                if d2[: len(base2)] != base2:
                    to, base2 = "", ()
            dp = d2 + (Shadow.key(nm2),)
            # moving a directory into itself must fail and change nothing
            into_self = sh.kind(sp) == "d" and dp[: len(sp)] == sp
            ops.append({"op": "rename", "at": at, "src": path_str(rng, real_path(d)[len(base):] + [nm]),
                        "to": to, "dst": path_str(rng, real_path(d2)[len(base2):] + [nm2])})
            if sh.exists(sp) and not sh.exists(dp) and not into_self and sh.kind(dp[:-1]) == "d":
                sh.rename(sp, dp)
                # fix real names of moved subtree
                for q in list(real):
                    if q[: len(sp)] == sp and q != ():
                        real[dp + q[len(sp):]] = real[q] if q != sp else nm2
                real[dp] = nm2
        elif r < 0.90 + stats_p:
            ops.append({"op": "stats"})
        else:
            if sh.open_files and rng.random() < 0.6:
                h = rng.choice(list(sh.open_files))
                ops.append({"op": "close", "h": h})
                del sh.open_files[h]
            elif sh.dir_handles:
                h = rng.choice(list(sh.dir_handles))
                ops.append({"op": "closedir", "h": h})
                del sh.dir_handles[h]
    ops.append({"op": "unmount"})
    return {"id": pid, "cfg": cfg, "ops": ops, "origin": "random:ns"}


def io_program(rng, pid, cfg, cs, n_ops, n_files=2, max_clusters=3):
    """random/boundary file I/O on 1..n_files files, interleaved"""
    ops = []
    hs = []
    sizes = {}
    pos = {}
    for k in range(n_files):
        h = "h%d" % k
        ops.append({"op": "create_file", "at": "", "path": "f%d.bin" % k, "as": h})
        hs.append(h)
        sizes[h] = 0
        pos[h] = 0
    if rng.random() < 0.5:
        # calls on a file that is still empty: no extent, nothing to read, seeking anywhere lands at 0, truncation changes nothing
        h = rng.choice(hs)
        ops += [{"op": "extents", "h": h}, {"op": "read", "h": h, "len": 5}, {"op": "seek", "h": h, "from": "end", "off": rng.choice([0, 3, -1])},
                {"op": "truncate", "h": h}, {"op": "flush", "h": h}]
    bnd = sorted({0, 1} | {k * cs + d for k in range(1, max_clusters + 1) for d in (-1, 0, 1)})
    lens = [0, 1, 2, cs - 1, cs, cs + 1, 2 * cs + 1, 7, 100]
    for _ in range(n_ops):
        h = rng.choice(hs)
        r = rng.random()
        if r < 0.35:
            ln = rng.choice(lens) if rng.random() < 0.8 else rng.randrange(0, 3 * cs)
            if pos[h] + ln > max_clusters * cs + 5:
                ln = max(0, max_clusters * cs + 5 - pos[h])
            ops.append({"op": rng.choice(["write", "write_all", "write_all"]), "h": h, "pat": rng.randrange(10000), "len": ln})
            # position after a plain `write` is not tracked exactly by the generator; that is fine
            pos[h] = min(pos[h] + ln, max_clusters * cs + 5)
            sizes[h] = max(sizes[h], pos[h])
        elif r < 0.55:
            ln = rng.choice(lens)
            ops.append({"op": rng.choice(["read", "read_all"]), "h": h, "len": ln})
        elif r < 0.80:
            frm = rng.choice(["start", "cur", "end"])
            if frm == "start":
                off = rng.choice(bnd + [sizes[h], sizes[h] + 1, sizes[h] + 1000])
            elif frm == "end":
                off = -rng.choice(bnd + [sizes[h], sizes[h] + 1]) if rng.random() < 0.8 else rng.choice([0, 1, 5])
            else:
                off = rng.choice([-cs - 1, -cs, -1, 0, 1, cs - 1, cs, cs + 1, -sizes[h] - 1])
            ops.append({"op": "seek", "h": h, "from": frm, "off": off})
            pos[h] = 0 if frm == "start" and off == 0 else pos[h]
        elif r < 0.86:
            ops.append({"op": "truncate", "h": h})
        elif r < 0.92:
            ops.append({"op": "flush", "h": h})
        elif r < 0.96:
            ops.append({"op": "extents", "h": h})
        else:
            # close and reopen
            k = int(h[1:])
            ops.append({"op": "close", "h": h})
            ops.append({"op": "open_file", "at": "", "path": "F%d.BIN" % k, "as": h})
            pos[h] = 0
    for h in hs:
        ops.append({"op": "close", "h": h})
    ops.append({"op": "stats"})
    ops.append({"op": "unmount"})
    return {"id": pid, "cfg": cfg, "ops": ops, "origin": "random:io"}


def scaled(prog, unit):
    """a program generated in units of `unit` bytes (cluster size given as cs // unit): lengths and offsets multiplied out"""
    for o in prog["ops"]:
        for k in ("len", "off"):
            if k in o:
                o[k] *= unit
    return prog


def reuse_program(rng, pid, cfg, cs):
    """a file shrinks or is emptied, its space is taken by other files (in the same session or after a remount), then it is written again:
    every file must still read back what was last written to it"""
    ops = []
    n = 0
    names = ["a.bin", "b.bin", "c.bin", "d.bin"]
    live = {}
    for rnd in range(rng.randrange(2, 5)):
        v = rng.choice(names)
        n += 1
        h = "v%d" % n
        ops.append({"op": "create_file", "at": "", "path": v, "as": h})
        ops.append({"op": "seek", "h": h, "from": "end", "off": 0})
        ops.append({"op": "write_all", "h": h, "pat": 100 + n, "len": rng.choice([1, cs, 2 * cs, 2 * cs + 5, 3 * cs])})
        if rng.random() < 0.4:
            ops.append({"op": "flush", "h": h})
        ops.append({"op": "seek", "h": h, "from": "start", "off": rng.choice([0, 0, 0, 1, cs, cs + 1])})
        ops.append({"op": "truncate", "h": h})
        if rng.random() < 0.25:
            ops.append({"op": "write_all", "h": h, "pat": 200 + n, "len": rng.choice([1, cs + 1])})
        ops.append({"op": "close", "h": h})
        if rng.random() < 0.5:
            ops.append({"op": rng.choice(["unmount", "dropfs"])})
        # others take the space
        for _ in range(rng.randrange(1, 3)):
            w = rng.choice([x for x in names if x != v])
            n += 1
            g = "w%d" % n
            ops.append({"op": "create_file", "at": "", "path": w, "as": g})
            ops.append({"op": "seek", "h": g, "from": "end", "off": 0})
            ops.append({"op": "write_all", "h": g, "pat": 300 + n, "len": rng.choice([cs, 2 * cs, 3 * cs + 1])})
            ops.append({"op": "close", "h": g})
        # the first file again
        n += 1
        h = "r%d" % n
        ops.append({"op": "open_file", "at": "", "path": v, "as": h})
        ops.append({"op": "seek", "h": h, "from": rng.choice(["start", "end"]), "off": 0})
        ops.append({"op": "write_all", "h": h, "pat": 400 + n, "len": rng.choice([1, cs, 2 * cs + 1])})
        ops.append({"op": "close", "h": h})
        for x in names:
            n += 1
            ops.append({"op": "open_file", "at": "", "path": x, "as": "c%d" % n})
            ops.append({"op": "read_all", "h": "c%d" % n, "len": 8 * cs})
            ops.append({"op": "close", "h": "c%d" % n})
        if rng.random() < 0.3:
            ops.append({"op": "remove", "at": "", "path": rng.choice(names)})
    ops.append({"op": "unmount"})
    return {"id": pid, "cfg": cfg, "ops": ops, "origin": "reuse"}


def fill_program(rng, pid, cfg, cs, rounds=3, chunk_clusters=(1, 2, 3), use_dirs=True, probe_stats=True):
    """fill-to-full / delete-all cycles (C05)"""
    ops = []
    n = 0
    if probe_stats:
        ops.append({"op": "stats"})
    for rd in range(rounds):
        created = []
        dirs = []
        # create until the volume reports full (the generator cannot know when: it emits more than fit)
        for k in range(40):
            n += 1
            if use_dirs and rng.random() < 0.25:
                nm = "d%d" % n
                ops.append({"op": "create_dir", "at": "", "path": nm})
                dirs.append(nm)
            else:
                d = (rng.choice(dirs) + "/") if dirs and rng.random() < 0.4 else ""
                nm = d + "file-number-%d.dat" % n if rng.random() < 0.5 else d + "f%d" % n
                h = "h%d" % n
                ops.append({"op": "create_file", "at": "", "path": nm, "as": h})
                ops.append({"op": "write_all", "h": h, "pat": n, "len": rng.choice(chunk_clusters) * cs - rng.choice([0, 0, 1, 100])})
                ops.append({"op": "close", "h": h})
                created.append(nm)
            if probe_stats and rng.random() < 0.3:
                ops.append({"op": "stats"})
        ops.append({"op": "stats"})
        # delete everything (files first, then directories)
        rng.shuffle(created)
        for nm in created:
            if rng.random() < 0.3:
                h = "t%d" % n
                n += 1
                ops.append({"op": "open_file", "at": "", "path": nm, "as": h})
                ops.append({"op": "seek", "h": h, "from": "start", "off": rng.choice([0, 1, cs, cs + 1])})
                ops.append({"op": "truncate", "h": h})
                ops.append({"op": "close", "h": h})
            ops.append({"op": "remove", "at": "", "path": nm})
        for nm in reversed(dirs):
            ops.append({"op": "remove", "at": "", "path": nm})
        ops.append({"op": "stats"})
    ops.append({"op": "unmount"})
    return {"id": pid, "cfg": cfg, "ops": ops, "origin": "random:fill"}


def populate_ops(rng, cs, n_files=4, n_dirs=2):
    """deterministic-ish population used as the first session of read-only / foreign-state programs"""
    ops = []
    dirs = [""]
    for k in range(n_dirs):
        d = rng.choice(dirs) + "dir%d" % k
        ops.append({"op": "create_dir", "at": "", "path": d})
        dirs.append(d + "/")
    files = []
    for k in range(n_files):
        nm = rng.choice(dirs) + rng.choice(["file%d.txt" % k, "Long File Name Number %d.data" % k, "F%d" % k])
        h = "p%d" % k
        ops.append({"op": "create_file", "at": "", "path": nm, "as": h})
        ops.append({"op": "write_all", "h": h, "pat": k + 1, "len": rng.choice([0, 1, cs - 1, cs, cs + 1, 2 * cs + 7])})
        ops.append({"op": "close", "h": h})
        files.append(nm)
    return ops, files, [d.rstrip("/") for d in dirs if d]


def ro_program(rng, pid, cfg, cs, n_ops, end_setup="unmount", poke=None, end="unmount", no_stats=False):
    """populate, end the session, then a session made only of non-mutating calls (C13)"""
    ops, files, dirs = populate_ops(rng, cs)
    e = {"op": end_setup}
    if poke:
        e["poke"] = poke
    ops.append(e)
    # the read-only session takes place later (another day, month or year: stored access dates are not "today")
    if rng.random() < 0.7:
        ops.append({"op": "clock", "t": [rng.choice([2020, 2021, 2033]), rng.choice([6, 7, 12]), rng.choice([15, 16, 28]), 8, 0, 2, 0]})
    hs = {}
    n = 0
    for _ in range(n_ops):
        r = rng.random()
        if r < 0.2:
            ops.append({"op": "list", "at": "", "path": rng.choice([""] + dirs)})
        elif r < 0.4 and files:
            n += 1
            h = "r%d" % n
            f = rng.choice(files)
            if f in hs.values():
                continue
            ops.append({"op": "open_file", "at": "", "path": f if rng.random() < 0.7 else f.upper(), "as": h})
            hs[h] = f
        elif r < 0.6 and hs:
            h = rng.choice(list(hs))
            ops.append({"op": rng.choice(["read", "read_all"]), "h": h, "len": rng.choice([0, 1, cs, 3 * cs])})
        elif r < 0.7 and hs:
            h = rng.choice(list(hs))
            ops.append({"op": "seek", "h": h, "from": rng.choice(["start", "end", "cur"]), "off": rng.choice([0, 1, cs, -1])})
        elif r < 0.75 and hs:
            h = rng.choice(list(hs))
            ops.append({"op": "extents", "h": h})
        elif r < 0.8 and hs:
            h = rng.choice(list(hs))
            ops.append({"op": "close", "h": h})
            del hs[h]
        elif r < 0.86:
            ops.append({"op": "status" if no_stats else "stats"})
        elif r < 0.92:
            ops.append({"op": "status"})
        elif r < 0.96:
            ops.append({"op": "info"})
        else:
            ops.append({"op": "open_dir", "at": "", "path": rng.choice(dirs) if dirs else "x"})
    ops.append({"op": end})
    return {"id": pid, "cfg": cfg, "ops": ops, "origin": "random:ro"}


def ro_full_program(rng, pid):
    """a FAT32 volume is filled until no cluster (or exactly one) is free and unmounted, so that its information sector holds the valid
    count 0 (or 1); then a session of non-mutating calls with statistics queries: nothing may be written (C13)"""
    vol, cs = nearly_full_volume(rng, 32)
    vol["fsinfo"] = {"free": "exact", "next": rng.choice(["unknown", 2])}
    ops = [{"op": "create_file", "at": "", "path": "fill.bin", "as": "f"}, {"op": "write_all", "h": "f", "pat": 3, "len": 40 * cs}, {"op": "close", "h": "f"}]
    one = rng.random() < 0.5
    if one:      # give one cluster back: the seed file has two (600 bytes)
        ops += [{"op": "open_file", "at": "", "path": "SEED.TXT", "as": "s"}, {"op": "seek", "h": "s", "from": "start", "off": 100}, {"op": "truncate", "h": "s"}, {"op": "close", "h": "s"}]
    ops += [{"op": "stats"}, {"op": "unmount"}]
    if rng.random() < 0.6:
        ops.append({"op": "clock", "t": [2022, 2, 3, 8, 0, 2, 0]})
    for _ in range(rng.randrange(1, 3)):
        ops += rng.sample([{"op": "stats"}, {"op": "list", "at": "", "path": ""}, {"op": "status"}, {"op": "info"}, {"op": "stats"}], 3)
        ops.append({"op": rng.choice(["unmount", "dropfs"])})
    return {"id": pid, "cfg": {"vol": vol}, "ops": ops, "origin": "ro:full:%d" % (1 if one else 0)}


def ro_foreign_program(rng, pid, ft):
    """a volume written by someone else (read-only, hidden, system and archive attributes in every combination, stamps of other days) and a
    session of non-mutating calls on a later day: whatever the attributes of an entry say, reading it writes nothing (C13)"""
    vol, cs, oem = foreign_volume(rng, ft)
    # one volume in three is what a crash leaves: marked dirty, and the size field of some files says more than their chains hold
    # (read-only use writes nothing on such a volume either; nothing else is demanded of it)
    torn = rng.random() < 0.34
    if torn:
        vol["status"] = 1
        for e in vol["tree"]:
            if e.get("kind") == "f" and e.get("size", 0) > 0 and rng.random() < 0.6:
                # (... or says nothing at all: a size of zero in front of a chain, as a reset after a crash leaves it)
                e["recsize"] = rng.choice([e["size"] + 1, e["size"] + cs, e["size"] + 2 * cs + 5, 0, 0])
    known = _names_of(vol["tree"])
    files = [p for p, k in known if k == "f"]
    dirs = [p for p, k in known if k == "d"]
    ops = [{"op": "clock", "t": [rng.choice([2024, 2031]), rng.randrange(1, 13), rng.randrange(1, 29), 9, 0, 2, 0]}]
    for i, fl in enumerate(rng.sample(files, min(len(files), 6))):
        h = "r%d" % i
        ops += [{"op": "open_file", "at": "", "path": fl, "as": h}, {"op": "read", "h": h, "len": rng.choice([1, cs, 3 * cs])},
                {"op": "seek", "h": h, "from": "end", "off": rng.choice([0, -1])}, {"op": "seek", "h": h, "from": "start", "off": rng.choice([cs, 2 * cs + 1, 5 * cs])},
                {"op": "seek", "h": h, "from": rng.choice(["start", "end"]), "off": 0}, {"op": "read_all", "h": h, "len": 2 * cs}]
        if rng.random() < 0.5:
            ops.append({"op": "extents", "h": h})
        ops.append({"op": rng.choice(["close", "flush", "close"]), "h": h})
    for dn in dirs[:3]:
        ops.append({"op": "list", "at": "", "path": dn})
    ops += [{"op": "list", "at": "", "path": ""}, {"op": "status"}]
    if rng.random() < 0.4:
        ops.append({"op": "info"})
    ops.append({"op": rng.choice(["unmount", "dropfs"])})
    return {"id": pid, "cfg": {"vol": vol, "oem": oem}, "ops": ops, "origin": "ro:foreign"}


def fault_program(pid, cfg, cs):
    """one representative history touching every operation kind (C09): every device call of every
    operation is failed once by the `faults` driver"""
    ops = [
        {"op": "create_dir", "at": "", "path": "dir"},
        {"op": "create_file", "at": "", "path": "dir/Long name of a file.txt", "as": "h"},
        {"op": "write_all", "h": "h", "pat": 1, "len": 2 * cs + cs // 2},
        {"op": "flush", "h": "h"},
        {"op": "seek", "h": "h", "from": "start", "off": cs + 1},
        {"op": "read", "h": "h", "len": cs},
        {"op": "seek", "h": "h", "from": "end", "off": -1},
        {"op": "seek", "h": "h", "from": "start", "off": cs + 1},
        {"op": "truncate", "h": "h"},
        {"op": "set_modified", "h": "h", "t": [2001, 2, 3, 4, 5, 6, 0]},
        {"op": "close", "h": "h"},
        {"op": "create_file", "at": "", "path": "x", "as": "h2"},
        {"op": "write_all", "h": "h2", "pat": 2, "len": 4 * cs},
        {"op": "close", "h": "h2"},
        {"op": "rename", "at": "", "src": "x", "to": "", "dst": "renamed in place.dat"},
        {"op": "rename", "at": "", "src": "renamed in place.dat", "to": "", "dst": "dir/y"},
        {"op": "open_dir", "at": "", "path": "dir", "as": "d"},
        {"op": "list", "at": "d", "path": ""},
    ]
    # make the sub-directory grow: 16 slots per 512-byte cluster, 3 slots per entry
    for k in range(max(2, cs // 32 // 3)):
        ops.append({"op": "create_file", "at": "d", "path": "entry number %02d.long" % k})
    ops += [
        {"op": "create_dir", "at": "d", "path": "sub directory"},
        {"op": "open_file", "at": "", "path": "DIR/Y", "as": "h3"},
        {"op": "read_all", "h": "h3", "len": 5 * cs},
        {"op": "extents", "h": "h3"},
        {"op": "close", "h": "h3"},
        {"op": "stats"},
        {"op": "status"},
        {"op": "info"},
        # directories are moved: into a directory two levels down (the check against moving a directory into itself walks up from
        # the destination), back into the root, into itself (refused), and a non-empty directory is (not) removed
        {"op": "create_dir", "at": "", "path": "mover"},
        {"op": "create_dir", "at": "", "path": "mover/inner"},
        {"op": "rename", "at": "", "src": "mover", "to": "", "dst": "dir/sub directory/mover"},
        {"op": "rename", "at": "", "src": "dir/sub directory/mover", "to": "", "dst": "mover back"},
        {"op": "rename", "at": "", "src": "mover back", "to": "", "dst": "mover back/inner/self"},
        {"op": "remove", "at": "", "path": "mover back"},
        {"op": "remove", "at": "", "path": "mover back/inner"},
        {"op": "remove", "at": "", "path": "mover back"},
        {"op": "remove", "at": "", "path": "dir/y"},
        {"op": "remove", "at": "d", "path": "sub directory"},
        {"op": "closedir", "h": "d"},
        {"op": "unmount"},
        {"op": "stats"},
        {"op": "create_file", "at": "", "path": "after remount", "as": "h4"},
        {"op": "write_all", "h": "h4", "pat": 3, "len": cs + 1},
        {"op": "close", "h": "h4"},
        {"op": "dropfs"},
    ]
    return {"id": pid, "cfg": cfg, "ops": ops, "origin": "fixed:fault-history"}


def crash_program(rng, pid, cfg, cs, n_files=2, n_after=12):
    """files written and flushed/closed, followed by unrelated activity; the harness then enumerates
    every crash point after the first flush (C14)"""
    cfg = dict(cfg, wlog=True)
    ops = []
    hs = []
    ops.append({"op": "create_dir", "at": "", "path": "keep"})
    for k in range(n_files):
        h = "h%d" % k
        nm = rng.choice(["", "keep/"]) + rng.choice(["data-file-%d.bin" % k, "D%d" % k])
        ops.append({"op": "create_file", "at": "", "path": nm, "as": h})
        for _ in range(rng.choice([1, 2, 3])):
            ops.append({"op": "write_all", "h": h, "pat": rng.randrange(1000), "len": rng.choice([1, cs - 1, cs, cs + 1, 2 * cs + 3])})
            if rng.random() < 0.5:
                ops.append({"op": "flush", "h": h})
        if rng.random() < 0.5:
            ops.append({"op": "seek", "h": h, "from": "start", "off": rng.choice([0, 1, cs])})
            ops.append({"op": "truncate", "h": h})
        if rng.random() < 0.3:
            # the flush goes through a clone of the handle (File::clone copies the pending entry changes); the original stays open
            ops.append({"op": "clone", "h": h, "as": h + "c"})
            ops.append({"op": rng.choice(["flush", "close"]), "h": h + "c"})
        else:
            ops.append({"op": rng.choice(["flush", "close"]), "h": h})
        hs.append((h, nm))
    # unrelated activity afterwards: other files, directories, removal of neighbours, renames
    for j in range(n_after):
        r = rng.random()
        if r < 0.3:
            h = "o%d" % j
            ops.append({"op": "create_file", "at": "", "path": rng.choice(["", "keep/"]) + "other-%d.tmp" % j, "as": h})
            ops.append({"op": "write_all", "h": h, "pat": j, "len": rng.choice([10, cs, 2 * cs])})
            ops.append({"op": "close", "h": h})
        elif r < 0.45:
            ops.append({"op": "create_dir", "at": "", "path": "dir-%d" % j})
        elif r < 0.6:
            ops.append({"op": "remove", "at": "", "path": rng.choice(["other-%d.tmp" % rng.randrange(n_after), "keep/other-%d.tmp" % rng.randrange(n_after), "dir-%d" % rng.randrange(n_after)])})
        elif r < 0.7:
            ops.append({"op": "rename", "at": "", "src": "dir-%d" % rng.randrange(n_after), "to": "", "dst": "keep/moved-%d" % j})
        elif r < 0.8:
            # modify one of the flushed files again (the flushed state is then no longer promised)
            h, nm = rng.choice(hs)
            ops.append({"op": "write_all", "h": h, "pat": 77, "len": rng.choice([1, cs])})
        elif r < 0.9:
            ops.append({"op": "rename", "at": "", "src": "keep", "to": "", "dst": "kept-%d" % j})
            ops.append({"op": "rename", "at": "", "src": "kept-%d" % j, "to": "", "dst": "keep"})
        else:
            ops.append({"op": "stats"})
    ops.append({"op": "unmount"})
    prog = {"id": pid, "cfg": cfg, "ops": ops, "crash": {"stride": 1}, "origin": "random:crash"}
    if rng.random() < 0.45:
        # a transient storage error during one flush, followed by a successful retry: the retry's promise counts
        idx = [i for i, o in enumerate(ops) if o["op"] == "flush"]
        if idx:
            i = rng.choice(idx)
            ops.insert(i + 1, dict(ops[i]))
            if rng.random() < 0.5:
                prog["fault"] = {"at": i, "k": rng.randrange(1, 40), "continue": True}
            else:
                # the storage's own flush fails, with an ordinary or with a transient ("interrupted", EINTR-like) error
                prog["fault"] = {"at": i, "flush": True, "intr": rng.random() < 0.6, "continue": True}
            prog["origin"] = "random:crash+fault"
    elif rng.random() < 0.35:
        # one device call of a data write is interrupted (EINTR-like): write_all repeats the piece, nothing is lost or written twice
        idx = [i for i, o in enumerate(ops) if o["op"] == "write_all" and o.get("len", 0) >= cs]
        if idx:
            prog["fault"] = {"at": rng.choice(idx), "k": rng.randrange(1, 14), "intr": True, "continue": True}
            prog["origin"] = "random:crash+intr"
    return prog


# ------------------------------------------------------------------------------------------------
# C06: format requests

KB, MB, GB = 1024, 1024 * 1024, 1024 * 1024 * 1024


def format_sizes_bytes():
    """byte sizes at every threshold of the sizing heuristics and FAT-type limits"""
    t = [4200 * KB, 512 * MB, 16 * MB, 128 * MB, 260 * MB, 8 * GB, 32 * GB]
    t += [MB << k for k in range(0, 22)]          # next_power_of_two switch points 1 MB .. 2 TB
    t += [4085 * 512, 4085 * 1024, 4085 * 4096, 65525 * 512, 65525 * 1024, 65525 * 2048, 65525 * 4096, 65525 * 32768,
          0x0FFFFFF5 * 512, 0x0FFFFFF5 * 4096]
    return sorted(set(t))


def format_requests(rng, quick=True):
    reqs = []
    n = [0]

    def add(sectors, **kw):
        if sectors < 0 or sectors > 0xFFFFFFFF:
            return
        n[0] += 1
        r = {"id": "fmt%d" % n[0], "sectors": sectors}
        r.update(kw)
        # every fifth small volume is formatted over a storage full of old data (quick format must not rely on zeros)
        if n[0] % 5 == 0 and sectors * kw.get("bps", 512) <= (40 << 20) and "tail" not in kw:
            r["prefill"] = [0xD1, 0xFF, 0x01, 0xE5][n[0] // 5 % 4]
        reqs.append(r)

    # 1. default options, 512-byte sectors: tiny sizes exhaustively, then every threshold +- {0,1,2} sectors
    for s in range(0, 130):
        add(s)
    for b in format_sizes_bytes():
        for d in (-2, -1, 0, 1, 2, 64, -64):
            add(b // 512 + d)
    for s in (0xFFFFFFFF, 0xFFFFFFFE, 0x80000000, 0x7FFFFFFF, 0x100000000 // 2 + 1):
        add(s)
    # 2. option grid at thresholds
    bps_list = [512, 1024, 2048, 4096]
    bpc_list = [None, 512, 1024, 4096, 32768, 65536, 1 << 20]
    roots = [None, 1, 16, 100, 512, 65535]
    fts = [None, 12, 16, 32]
    sizes = format_sizes_bytes()
    grid = []
    for bps in bps_list + [8192, 32768]:
        for bpc in bpc_list:
            for fats in (1, 2):
                for root in roots:
                    for ft in fts:
                        grid.append((bps, bpc, fats, root, ft))
    rng.shuffle(grid)
    take = 260 if quick else 4000
    for (bps, bpc, fats, root, ft) in grid[:take]:
        for b in rng.sample(sizes, 4 if quick else 12):
            if b > 64 * GB and rng.random() < (0.85 if quick else 0.5):
                continue  # huge formats are slow (zeroing the tables); keep a sample
            kw = {"bps": bps, "fats": fats}
            if bpc:
                kw["bpc"] = bpc
            if root is not None:
                kw["root"] = root
            if ft:
                kw["ft"] = ft
            spc = (bpc or bps) // bps if bpc else 1
            for d in (0, -1, 1, max(1, spc)):
                add(b // bps + d, **kw)
    # 3. cluster-count limits approached exactly: sectors = reserved + fats*spf + root + N*spc for N at the limits
    for ft, lim in ((12, 4084), (12, 4085), (16, 4085), (16, 65524), (16, 65525), (32, 65525), (32, 65526)):
        for spc in (1, 2, 8, 64):
            for d in range(-3, 4):
                est = lim * spc + (33 if ft != 32 else 8) + 2 * ((lim * (ft // 4) // 2) // 512 + 1)
                add(est + d * spc, ft=ft, bpc=512 * spc)
                add(est + d, ft=ft, bpc=512 * spc)
    # 3a. dense ranges: every sector count of the FAT12 range for default options (the table size is a quotient of rounded terms, which
    #     goes wrong in narrow windows), forced FAT12 with small clusters, and every count around the width boundaries
    for s_ in range(130, 8500 if quick else 70000):
        add(s_)
    for s_ in range(42, 4300):
        add(s_, ft=12, bpc=512)
    for s_ in range(4000, 9000, 1 if not quick else 2):
        add(s_, ft=12, bpc=1024)
    for s_ in list(range(4080, 4260)) + list(range(65900, 66300)):
        add(s_, bpc=512)
        add(s_, bpc=512, ft=16)
        add(s_, bpc=512, fats=1, root=16)
    for s_ in range(66000, 66700, 1 if not quick else 3):
        add(s_, bpc=512, ft=32)
    # 3b. very large tables (2^27 and more entries), the FAT32 cluster limit with small clusters
    for sectors, bpc in ((3 << 30, 8192), (1 << 31, 4096), ((1 << 31) + 12345, 4096), (0xFFFFFFFF, 8192), (0xFFFFFFFF, 16384), (0xFFFFFFFF, 4096),
                         (0x0FFFFFF5 + 2200000, 512), (0x0FFFFFF5 * 2 + 2200000, 1024)):
        add(sectors, bpc=bpc, ft=32)
        if not quick:
            add(sectors, bpc=bpc, ft=32, fats=1)
            add(sectors - 1, bpc=bpc)
    # 3c. narrow table widths forced on volumes of every magnitude up to the 32-bit sector limit, with every sector size (mostly
    #     unsatisfiable: the answer is the invalid-input error, computed without overflow)
    for ft in (12, 16):
        for bps in bps_list:
            for sectors in (1 << 16, 1 << 20, 1 << 22, 1 << 24, 1 << 26, 1 << 28, (1 << 30) - 1, 1 << 30, (1 << 30) + 1, (1 << 31) - 1, 1 << 31, (1 << 31) + 1,
                            3 << 30, 0xFFFFFFFF):
                add(sectors, ft=ft, bps=bps)
                if not quick or sectors >= (1 << 30):
                    add(sectors, ft=ft, bps=bps, bpc=bps * 128 if bps * 128 <= 65536 * 8 else 32768)
                    add(sectors, ft=ft, bps=bps, fats=1, root=512)
    # 4. labels, ids, media, tail (device larger than the volume)
    for k in range(12 if quick else 100):
        # (a label is given as raw 8.3 bytes: a first byte of 0x00 / 0xE5 / space would not be a label at all)
        add(rng.choice([100, 2880, 8192, 70000, 300000]), label=[rng.choice([65, 97, 5, 255, 46])] + [rng.choice([65, 97, 32, 229, 5, 255, 46]) for _ in range(10)],
            volid=rng.randrange(1 << 32), media=rng.choice([0xF0, 0xF8, 0xFF, 0x00]), tail=4096)
    # 4b. the size taken from the device (no total_sectors option), geometry hints and drive number set
    for k in range(24 if quick else 300):
        kw = {"from_device": True} if k % 2 == 0 else {}
        if k % 3 == 0:
            kw.update(spt=rng.choice([0, 1, 63, 0xFFFF]), heads=rng.choice([0, 1, 255, 0xFFFF]), drive=rng.choice([0, 0x80, 0xFF]))
        if k % 4 == 1:
            kw["bps"] = rng.choice([1024, 4096])
        add(rng.choice([42, 100, 2880, 8400, 70000, 140000, 1 << 21]), **kw)
    # 5. dense random grid
    for _ in range(300 if quick else 20000):
        bps = rng.choice(bps_list)
        exp = rng.uniform(5, 32)
        kw = {"bps": bps, "fats": rng.choice([1, 2])}
        if rng.random() < 0.5:
            kw["bpc"] = bps << rng.randrange(0, 8)
        if rng.random() < 0.3:
            kw["ft"] = rng.choice([12, 16, 32])
        if rng.random() < 0.3:
            kw["root"] = rng.choice([1, 15, 16, 17, 240, 512, 1000])
        sectors = int(2 ** exp)
        if sectors * bps > 64 * GB and rng.random() < 0.9:
            continue
        add(sectors, **kw)
    return reqs


# ------------------------------------------------------------------------------------------------
# C07: mount mutations

F8 = ["jmp0", "spc", "nfats", "media", "drive", "status", "extsig"]
F16 = ["bps", "rsvd", "rootn", "ts16", "spf16", "spt", "heads", "extf", "fsver", "fis", "bks", "sig"]
F32 = ["hidden", "ts32", "spf32", "rootc", "fi_lead", "fi_struc", "fi_free", "fi_next", "fi_trail"]


def boundary32():
    v = set()
    for k in range(0, 33):
        for d in (-1, 0, 1):
            x = (1 << k) + d
            if 0 <= x <= 0xFFFFFFFF:
                v.add(x)
    for t in (4084, 4085, 4086, 65524, 65525, 65526, 0x0FFFFFF5, 0x0FFFFFF6, 0x0FFFFFF7, 0x0FFFFFFF, 0x10000000, 66999, 67000, 67001):
        v.add(t)
    return sorted(v)


def mount_specs(rng, bases, quick=True):
    specs = []
    n = 0
    for bname, base in bases:
        for strict in (True, False):
            muts = []
            if strict:
                for f in F8:
                    muts.append({"f": f, "all": 8})
                for f in F16:
                    if quick:
                        muts.append({"f": f, "all": 16, "stride": 97})
                        muts.append({"f": f, "vals": sorted({0, 1, 2, 3, 7, 8, 9, 15, 16, 17, 31, 32, 33, 511, 512, 513, 1023, 1024, 4095, 4096, 4097, 8192,
                                                              32767, 32768, 32769, 65534, 65535})})
                    else:
                        muts.append({"f": f, "all": 16})
                for f in F32:
                    muts.append({"f": f, "vals": boundary32() + [rng.randrange(1 << 32) for _ in range(100 if quick else 10000)]})
                # upper halves of 32-bit fields exhaustively (thorough)
                if not quick:
                    for f in ("ts32", "spf32", "rootc"):
                        muts.append({"f": f, "all": 16, "shift": 16})
            else:
                for f in ("sig", "jmp0"):
                    muts.append({"f": f, "vals": [0, 1, 0x55AA, 0xAA55, 0xFFFF]})
                for f in F16[:6]:
                    muts.append({"f": f, "all": 16, "stride": 997})
            # sector counts that give exactly the cluster counts at which the FAT width changes
            muts.append({"clusters": [1, 2, 4083, 4084, 4085, 4086, 65523, 65524, 65525, 65526, 0x0FFFFFF4, 0x0FFFFFF5, 0x0FFFFFF6]})
            # random combinations of 2-4 fields
            allf = F8 + F16 + F32
            for _ in range(500 if quick else 30000):
                k = rng.choice([2, 2, 3, 4])
                combo = []
                for f in rng.sample(allf, k):
                    bits = 8 if f in F8 else 16 if f in F16 else 32
                    val = rng.choice(boundary32()) if rng.random() < 0.5 else rng.randrange(1 << bits)
                    combo.append([f, val & ((1 << bits) - 1)])
                muts.append({"combo": combo})
            # split into several specs for parallelism
            per = 40
            for i in range(0, len(muts), per):
                n += 1
                specs.append({"id": "mnt-%s-%s-%d" % (bname, "s" if strict else "n", n), "base": base, "strict": strict, "muts": muts[i:i + per]})
        specs.append({"id": "mnt-%s-trunc" % bname, "base": base, "strict": True, "muts": [],
                      "truncate": [0, 1, 3, 11, 36, 62, 90, 509, 510, 511, 512, 513, 1023, 1024, 4095, 4096]})
    return specs


# ------------------------------------------------------------------------------------------------
# C15 / C16 / C18 campaigns

def name_program(pid, cfg, names, lookups=None, origin="names"):
    """create each name in a sub-directory (a handle is taken and dropped), list, then look names up"""
    ops = [{"op": "create_dir", "at": "", "path": "d", "as": "D"}]
    for i, nm in enumerate(names):
        ops.append({"op": "create_file", "at": "D", "path": nm, "as": "n%d" % i})
        ops.append({"op": "close", "h": "n%d" % i})
    ops.append({"op": "list", "at": "D", "path": ""})
    for j, (kind, nm) in enumerate(lookups or []):
        if kind == "rename":
            ops.append({"op": "rename", "at": "D", "src": nm[0], "to": "D", "dst": nm[1]})
        elif kind == "remove":
            ops.append({"op": "remove", "at": "D", "path": nm})
        elif kind in ("create_file", "create_dir"):
            ops.append({"op": kind, "at": "D", "path": nm})
        else:
            ops.append({"op": "open_file", "at": "D", "path": nm, "as": "l%d" % j})
            ops.append({"op": "close", "h": "l%d" % j})
    ops.append({"op": "list", "at": "D", "path": ""})
    ops.append({"op": "unmount"})
    return {"id": pid, "cfg": cfg, "ops": ops, "origin": origin}


def alias_fold_batches():
    """lookups that spell an entry's 8.3 alias with characters whose upper-case form is ASCII (U+FB01 'fi' ligature -> FI, U+0131 dotless i
    -> I, U+017F long s -> S): the alias is matched ignoring case like the long name is (Unicode-aware when the feature is on)"""
    names = ["Fine Long Name.txt", "Sister Ship Log.dat", "island hopping notes.md"]
    lookups = [("open", "\ufb01nelo~1.txt"), ("open", "F\u0131nelo~1.TXT"), ("open", "\u017fister~1.dat"), ("open", "SI\u017fTER~1.DAT"), ("open", "\u0131sland~1.md"),
               ("open", "finelo~1.txt"), ("open", "FINELO~2.TXT"), ("create_file", "\ufb01nelo~1.txt"), ("rename", ("island hopping notes.md", "\u017fister~1.dat")),
               ("open", "\ufb01ne long name.txt"), ("open", "\u017fi\u017fter ship log.dat")]
    return [(names, lookups)]


def overlong_fold_batches():
    """names that are too long (more than 255 bytes in UTF-8) or hold an illegal character, but whose upper-case form is the upper-case form
    of a valid name already in the directory: the name is invalid whatever the directory holds (validation does not depend on a lookup)"""
    out = []
    for ch, alt, n in (("i", "\u0131", 130), ("s", "\u017f", 200), ("k", "\u212a", 90)):
        good = ch * n                      # valid: n bytes
        bad = alt * n                      # 2-3 bytes per character: more than 255 bytes, same fold key where the fold maps alt to ch
        out.append(([good, "other " + ch], [("create_file", bad), ("create_dir", bad), ("rename", ("other " + ch, bad)), ("open", bad),
                                               ("create_file", good.upper()), ("rename", ("other " + ch, good.upper() + "*"))]))
    return out


def bmp_points(quick):
    pts = set()
    bounds = [0x7F, 0x80, 0x81, 0xFF, 0x100, 0x17F, 0x7FF, 0x800, 0xFFF, 0x1000, 0xD7FF, 0xE000, 0xF8FF, 0xFEFF, 0xFFFD, 0xFFFE, 0xFFFF]
    pts.update(bounds)
    step = 97 if quick else 1
    for c in range(0x80, 0x10000, step):
        pts.add(c)
    return sorted(c for c in pts if not (0xD800 <= c <= 0xDFFF))


def name_sets(rng, fold, quick=True):
    """list of (names, lookups) batches"""
    batches = []
    # (a) every ASCII character in first, middle and last position ('/' is the path separator)
    asc = [c for c in range(1, 128) if c != 47]
    for pos in (0, 1, 2):
        names = []
        for c in asc:
            ch = chr(c)
            names.append([ch + "q%d" % c, "p" + ch + "q%d" % c, "pq%d" % c + ch][pos])
        for i in range(0, len(names), 14):
            batches.append((names[i:i + 14], []))
    # names made only of dots and spaces, and the empty name (a path of slashes)
    batches.append(([" ", "  ", "...", ". .", " .", ".a", "a.", "a ", " a", "a..b", "a. .b"], [("open", "A."), ("open", ".A")]))
    # (b) BMP code points in first, middle and last position, astral samples
    pts = bmp_points(quick)
    for pos in (0, 1, 2):
        names = []
        for c in pts:
            ch = chr(c)
            names.append([ch + "x%X" % c, "y" + ch + "%X" % c, "z%X" % c + ch][pos])
        for i in range(0, len(names), 14):
            batches.append((names[i:i + 14], []))
    astral = [0x10000, 0x10400, 0x1F600, 0x2FFFF, 0x10FFFF] + ([] if quick else [rng.randrange(0x10000, 0x110000) for _ in range(2000)])
    for i in range(0, len(astral), 10):
        batches.append(([chr(c) + "a" for c in astral[i:i + 10]] + ["b" + chr(c) for c in astral[i:i + 10]], []))
    # (c) every length 0..300 with 1-, 2-, 3- and 4-byte characters
    lens = list(range(0, 301)) if not quick else sorted(set(list(range(0, 20)) + [84, 85, 86, 126, 127, 128, 129] + list(range(250, 262)) + [300]))
    for ch in ("a", "\u00e9", "\u20ac", "\U0001F600"):
        for i in range(0, len(lens), 6):
            names = [ch * n for n in lens[i:i + 6]]
            # an empty string is a path that names nothing: expressed as a single slash
            names = [n if n else "/" for n in names]
            batches.append((names, []))
    # (c2) shapes with dots: 1-, 2-, 3- and 4-byte characters as first character, just before the last dot and in the extension
    shapes = []
    for first in ("a", "\u00e9", "\u65e5", "\U0001F600", "\u017c"):
        for body in ("", "b", "\u00f3\u0142\u0107", "\u672c\u8a9e", "b\u00e9", "\u00e9b", "bc\u0444"):
            for ext in (".txt", ".t", ".\u00e9", "", ".a.b", ".\u65e5\u672c", ".tar.gz"):
                shapes.append(first + body + ext)
    shapes += ["\u00e9.\u00e9.\u00e9", ".\u00e9", "\u00e9.", "\u00e9..txt", "\u0444\u0430\u0439\u043b.txt", "\u017c\u00f3\u0142\u0107.txt", "\u65e5a.txt", "\u65e5ab.txt"]
    shapes = sorted(set(shapes))
    rng.shuffle(shapes)
    for i in range(0, len(shapes), 12):
        batches.append((shapes[i:i + 12], [("open", x.upper()) for x in shapes[i:i + 12][:3]]))
    # (c3) a name and the same name with one trailing dot (distinct long names for this library, one 8.3 form): order matters
    batches.append((["report", "report.", "DATA", "data.", "x.", "x", "readme.txt", "readme.txt."],
                    [("open", "REPORT"), ("open", "REPORT."), ("open", "Data"), ("open", "X"), ("open", "X."), ("remove", "report"), ("open", "report"),
                     ("open", "report."), ("rename", ("DATA", "moved.")), ("open", "moved"), ("open", "moved.")]))
    # (d) case pairs and near misses
    keys = sorted(int(k) for k in fold)
    pick = keys if not quick else keys[::9] + [223, 454, 0x149, 0x1F0, 0x390, 0x3B0, 0xFB00, 0xFB06, 0x1E96]
    pick = sorted(set(k for k in pick if str(k) in fold))
    for i in range(0, len(pick), 8):
        names, lookups = [], []
        for c in pick[i:i + 8]:
            up = "".join(chr(u) for u in fold[str(c)])
            base = "n%X" % c
            nm = base + chr(c) + ".t"
            names.append(nm)
            lookups.append(("open", base + up + ".T"))          # must hit (upper-case expansion)
            lookups.append(("open", base.lower() + chr(c) + ".T"))
            lookups.append(("open", base + chr(c)))              # near misses
            lookups.append(("open", base + up + up + ".t"))
            lookups.append(("open", base + chr(c) + ".tt"))
        batches.append((names, lookups))
    batches += ascii_bit5_batches()
    # ASCII case pairs, alias lookups and renames to invalid names
    batches.append((["MixedCase.Txt", "long file name with spaces.text", "UPPER.TXT", "lower.txt", "a.b.c.d", "Caf\u00e9.txt"],
                    [("open", "mixedcase.TXT"), ("open", "LONG FILE NAME WITH SPACES.TEXT"), ("open", "LONGFI~1.TEX"), ("open", "longfi~1.tex"),
                     ("open", "upper.txt"), ("open", "LOWER.TXT"), ("open", "A.B.C.D"), ("open", "ABCD~1.D"), ("open", "mixedcase"), ("open", "mixedcase.tx"),
                     ("open", "CAF\u00c9.TXT"), ("open", "CAFE.TXT"),
                     ("rename", ("UPPER.TXT", "bad:name")), ("rename", ("lower.txt", "")), ("rename", ("lower.txt", "x" * 256)), ("rename", ("lower.txt", "ok name")),
                     ("rename", ("a.b.c.d", "tab\there")), ("rename", ("MixedCase.Txt", "\u00e9" * 128))]))
    return batches


def ascii_bit5_batches():
    """ASCII characters that differ only in bit 5: letters are case pairs (one entry), `{`/`[`, `}`/`]`, `~`/`^`, `` ` ``/`@` are
    different names (two entries); an ASCII-only fold must not confuse them"""
    ok = set(list(range(48, 58)) + list(range(65, 91)) + list(range(97, 123)) + [36, 37, 39, 45, 95, 64, 126, 96, 33, 40, 41, 123, 125, 46, 32, 43, 44, 59, 61, 91, 93, 94, 35, 38])
    out = []
    cs = [c for c in range(0x40, 0x80) if c in ok and (c ^ 0x20) in ok]
    for i in range(0, len(cs), 6):
        names, lookups = [], []
        for c in cs[i:i + 6]:
            a, b = "n%02x" % (c | 0x20) + chr(c) + "q.t", "n%02x" % (c | 0x20) + chr(c ^ 0x20) + "q.t"
            names += [a, b]
            lookups += [("open", a), ("open", b), ("open", a.upper()), ("open", b.upper())]
        out.append((names, lookups))
    return out


def bsd16(name):
    c = 0
    for ch in name:
        c = ((c >> 1) + ((c & 1) << 15) + (ord(ch) & 0xFFFF)) & 0xFFFF
    return c


def colliding_names(rng, n, prefix="ab", ext="txt"):
    """names sharing the first two characters, the extension and the 16-bit name checksum the alias generator uses"""
    buckets = {}
    i = 0
    while True:
        # the first six characters are common too, so that the names collide on the PREFIX~N form as well as on the hash form
        nm = "%scdef%s-%d.%s" % (prefix, "".join(rng.choice("ghijkl") for _ in range(4)), i, ext)
        i += 1
        b = buckets.setdefault(bsd16(nm), [])
        b.append(nm)
        if len(b) >= n:
            return b
        if i > 3000000:
            return max(buckets.values(), key=len)


def names_with_hash(rng, n, target, prefix="wr", ext="txt"):
    """n long names sharing the first six characters and the extension whose 16-bit name hash is exactly `target` (the last two characters of
    the stem are solved for): with 13 + 9k of them the alias generator steps from hash target to target + k; target 0xFFFF makes it wrap"""
    def ror(x):
        return ((x >> 1) | ((x & 1) << 15)) & 0xFFFF

    def rol(x):
        return ((x << 1) | (x >> 15)) & 0xFFFF
    # state needed before "." + ext
    need = target
    for ch in reversed("." + ext):
        need = rol((need - ord(ch)) & 0xFFFF)
    alpha = "abcdefghijklmnopqrstuvwxyz0123456789"
    out = set()
    tries = 0
    while len(out) < n and tries < 2000000:
        tries += 1
        stem = "%sapar%s" % (prefix, "".join(rng.choice(alpha) for _ in range(rng.randrange(8, 14))))      # (short names cannot reach the top values)
        s0 = bsd16(stem)
        for a in alpha:
            t = ror((ror(s0) + ord(a)) & 0xFFFF)
            b = (need - t) & 0xFFFF
            if b < 128 and chr(b) in alpha:
                nm = "%s%s%s.%s" % (stem, a, chr(b), ext)
                assert bsd16(nm) == target
                out.add(nm)
                break
    return sorted(out)[:n]


def alias_program(rng, pid, cfg, names, removals=0.15, every=1):
    ops = [{"op": "create_dir", "at": "", "path": "d", "as": "D"}]
    live = []
    for i, nm in enumerate(names):
        ops.append({"op": "create_file", "at": "D", "path": nm})
        live.append(nm)
        if live and rng.random() < removals:
            v = rng.choice(live)
            live.remove(v)
            ops.append({"op": "remove", "at": "D", "path": v})
    ops.append({"op": "list", "at": "D", "path": ""})
    ops.append({"op": "unmount"})
    return {"id": pid, "cfg": cfg, "ops": ops, "origin": "alias"}


def alias_fault_program(rng, pid, cfg):
    """a directory holds entries whose aliases collide with the alias of a new name; one device call of the creation fails (a read of the
    directory scan among them) and the program goes on: if the call reports success, its alias must still be unique"""
    stem = rng.choice(["quarterly report", "Long File Name", "longfilename"])
    ops = [{"op": "create_dir", "at": "", "path": "d", "as": "D"}]
    n = rng.randrange(3, 12)
    for i in range(n):
        ops.append({"op": "create_file", "at": "D", "path": "%s %d.txt" % (stem, i)})
    at = len(ops)
    ops += [{"op": "create_file", "at": "D", "path": "%s new.txt" % stem}, {"op": "create_file", "at": "D", "path": "%s newer.txt" % stem},
            {"op": "list", "at": "D", "path": ""}, {"op": "unmount"}, {"op": "list", "at": "", "path": "d"}, {"op": "unmount"}]
    return {"id": pid, "cfg": cfg, "ops": ops, "fault": {"at": at, "k": rng.randrange(1, 4 * n + 12), "continue": True}, "origin": "alias-fault"}


def alias_move_program(rng, pid, cfg, n=8):
    """entries keep or change their name while they move between directories whose other entries generate the same aliases: the alias
    must be unique in the directory the entry arrives in"""
    ops = [{"op": "create_dir", "at": "", "path": "in"}, {"op": "create_dir", "at": "", "path": "out"}]
    stems = ["quarterly report", "Long File Name", "longfilename", "x" * 9, "\u00e9t\u00e9 holiday"]
    moved = []
    for i in range(n):
        st = rng.choice(stems)
        ext = rng.choice([".txt", ".data", ""])
        a, b = "%s draft %d%s" % (st, i, ext), "%s final %d%s" % (st, i, ext)
        kind = rng.choice(["create_file", "create_file", "create_dir"])
        ops.append({"op": kind, "at": "", "path": "in/" + a})
        ops.append({"op": kind, "at": "", "path": "out/" + b})
        moved.append(a)
    rng.shuffle(moved)
    for j, a in enumerate(moved):
        r = rng.random()
        if r < 0.3:
            # a new name in the other directory, whose existing entries share its alias prefix (the alias must be chosen against the
            # entries of the directory it arrives in)
            ops.append({"op": "rename", "at": "", "src": "in/" + a, "to": "", "dst": "out/" + a.replace("draft", "moved")})
        elif r < 0.6:
            ops.append({"op": "rename", "at": "", "src": "in/" + a, "to": "", "dst": "out/" + a})            # same name, other directory
        elif r < 0.8:
            ops.append({"op": "rename", "at": "", "src": "in/" + a, "to": "", "dst": "out/" + a.upper()})    # other spelling
        else:
            ops.append({"op": "rename", "at": "", "src": "in/" + a, "to": "", "dst": "in/" + a.replace("draft", "drafted")})
        if j % 3 == 2:
            ops.append({"op": "list", "at": "", "path": "out"})
    ops.append({"op": "list", "at": "", "path": "out"})
    ops.append({"op": "list", "at": "", "path": "in"})
    ops.append({"op": "unmount"})
    return {"id": pid, "cfg": cfg, "ops": ops, "origin": "alias-move"}


def stamp_values(rng, quick=True):
    """<<y,m,d,h,mi,s,ms>> tuples: full ranges of each field against boundary values of the others"""
    vals = []
    ys, ms_, ds = [1980, 1981, 2000, 2038, 2099, 2100, 2106, 2107], [1, 2, 6, 11, 12], [1, 2, 15, 28, 29, 30, 31]
    hs, mis, ss, mss = [0, 1, 11, 12, 22, 23], [0, 1, 30, 58, 59], [0, 1, 2, 29, 30, 31, 58, 59], [0, 1, 9, 10, 11, 499, 500, 989, 990, 999]
    for y in range(1980, 2108):
        vals.append((y, rng.choice(ms_), rng.choice(ds), rng.choice(hs), rng.choice(mis), rng.choice(ss), rng.choice(mss)))
    for m in range(1, 13):
        for d in range(1, 32):
            vals.append((rng.choice(ys), m, d, rng.choice(hs), rng.choice(mis), rng.choice(ss), rng.choice(mss)))
    for h in range(24):
        for s in range(60):
            vals.append((rng.choice(ys), rng.choice(ms_), rng.choice(ds), h, rng.choice(mis), s, rng.choice(mss)))
    for mi in range(60):
        vals.append((rng.choice(ys), rng.choice(ms_), rng.choice(ds), rng.choice(hs), mi, rng.choice(ss), rng.choice(mss)))
    for ms in range(0, 1000, 1 if not quick else 7):
        for s in (0, 1, 58, 59):
            vals.append((rng.choice(ys), rng.choice(ms_), rng.choice(ds), rng.choice(hs), rng.choice(mis), s, ms))
    if not quick:
        for y in range(1980, 2108):
            for m in range(1, 13):
                for d in range(1, 32):
                    vals.append((y, m, d, rng.choice(hs), rng.choice(mis), rng.choice(ss), rng.choice(mss)))
    return vals


def near_stamps(rng, n):
    """sequences of stamps that differ from the previous one by less than the resolution of a field (same 2-second slot, same day, ...)"""
    out = []
    t = [rng.randrange(1980, 2108), rng.randrange(1, 13), rng.randrange(1, 29), rng.randrange(24), rng.randrange(60), rng.randrange(0, 58), rng.randrange(0, 990)]
    for _ in range(n):
        step = rng.choice(["ms", "ms", "sec", "2sec", "min", "day", "same"])
        t = list(t)
        if step == "ms":
            t[6] = (t[6] + rng.choice([10, 20, 250, 1, 9])) % 1000
        elif step == "sec":
            t[5] = t[5] ^ 1                      # the other second of the same 2-second slot
        elif step == "2sec":
            t[5] = (t[5] + 2) % 60
        elif step == "min":
            t[4] = (t[4] + 1) % 60
        elif step == "day":
            t[2] = t[2] % 28 + 1
        out.append(tuple(t))
    return out


def stamp_program(rng, pid, cfg, triples, atime=False):
    cfg = dict(cfg, atime=atime)
    ops = [{"op": "create_file", "at": "", "path": "stamped.dat", "as": "s"}, {"op": "write_all", "h": "s", "pat": 1, "len": 10}, {"op": "close", "h": "s"},
           {"op": "create_file", "at": "", "path": "other.dat", "as": "o"}, {"op": "close", "h": "o"}]
    for (a, b, c) in triples:
        ops.append({"op": "open_file", "at": "", "path": "stamped.dat", "as": "s"})
        ops.append({"op": "set_created", "h": "s", "t": list(a)})
        ops.append({"op": "set_modified", "h": "s", "t": list(b)})
        ops.append({"op": "set_accessed", "h": "s", "t": list(c)})
        ops.append({"op": rng.choice(["flush", "close"]), "h": "s"})
        if ops[-1]["op"] == "flush":
            ops.append({"op": "close", "h": "s"})
    ops.append({"op": "unmount"})
    return {"id": pid, "cfg": cfg, "ops": ops, "origin": "stamps"}


def clock_program(rng, pid, cfg, cs, n_ops, atime):
    """stamping rules under the harness clock: create, write, read (access date), rename, operations on other entries"""
    # (the order of the FsOptions builder calls and the strict flag are free: none of them may touch the access-date option)
    cfg = dict(cfg, atime=atime, optord=rng.randrange(5), strict=rng.random() < 0.7)
    ops = []
    files = []
    hs = {}
    n = 0

    def tick():
        t = [rng.randrange(1980, 2108), rng.randrange(1, 13), rng.randrange(1, 29), rng.randrange(24), rng.randrange(60), rng.randrange(60), rng.randrange(1000)]
        ops.append({"op": "clock", "t": t})

    tick()
    ops.append({"op": "create_dir", "at": "", "path": "sub"})
    for _ in range(n_ops):
        if rng.random() < 0.5:
            tick()
        r = rng.random()
        if r < 0.2 or not files:
            n += 1
            nm = rng.choice(["", "sub/"]) + "f%d.txt" % n
            h = "h%d" % n
            ops.append({"op": "create_file", "at": "", "path": nm, "as": h})
            files.append(nm)
            hs[h] = nm
        elif r < 0.4 and hs:
            h = rng.choice(list(hs))
            ops.append({"op": "write_all", "h": h, "pat": n, "len": rng.choice([0, 1, cs, cs + 1])})
        elif r < 0.55 and hs:
            h = rng.choice(list(hs))
            ops.append({"op": "seek", "h": h, "from": "start", "off": 0})
            ops.append({"op": "read_all", "h": h, "len": rng.choice([0, 1, cs])})
        elif r < 0.7 and hs:
            h = rng.choice(list(hs))
            ops.append({"op": rng.choice(["flush", "close"]), "h": h})
            if ops[-1]["op"] == "close":
                del hs[h]
        elif r < 0.8:
            closed = [f for f in files if f not in hs.values()]
            if closed:
                f = rng.choice(closed)
                n += 1
                h = "h%d" % n
                ops.append({"op": "open_file", "at": "", "path": f, "as": h})
                hs[h] = f
        elif r < 0.9:
            closed = [f for f in files if f not in hs.values()]
            if closed:
                f = rng.choice(closed)
                n += 1
                g = rng.choice(["", "sub/"]) + "r%d.txt" % n
                ops.append({"op": "rename", "at": "", "src": f, "to": "", "dst": g})
                files[files.index(f)] = g
        else:
            h = rng.choice(list(hs)) if hs else None
            if h:
                ops.append({"op": "seek", "h": h, "from": "start", "off": rng.choice([0, 1])})
                ops.append({"op": "truncate", "h": h})
    ops.append({"op": "unmount"})
    return {"id": pid, "cfg": cfg, "ops": ops, "origin": "clock"}


# ------------------------------------------------------------------------------------------------
# foreign volumes (image builder) - C08 / C10 / C11 / C20

def _alias(i, long_name):
    base = "".join(ch for ch in long_name.upper() if ch.isalnum() and ord(ch) < 128)[:4] or "X"
    ext = ""
    if "." in long_name:
        ext = "".join(ch for ch in long_name.rsplit(".", 1)[1].upper() if ch.isalnum() and ord(ch) < 128)[:3]
    b = (base + "~%d" % (i + 1))[:8]
    return b.ljust(8) + ext.ljust(3)


def _stamps(rng):
    def d():
        return ((rng.randrange(1980, 2108) - 1980) << 9) | (rng.randrange(1, 13) << 5) | rng.randrange(1, 29)

    def t():
        return (rng.randrange(24) << 11) | (rng.randrange(60) << 5) | rng.randrange(30)
    return {"cd": d(), "ctm": t(), "cth": rng.randrange(200), "md": d(), "mtm": t(), "ad": d()}


def foreign_tree(rng, cs, depth=0, n_entries=6, oem_high=False):
    """abstract tree using encodings the library's writer never produces"""
    entries = []
    used = set()
    for i in range(n_entries):
        kind = rng.choice(["f", "f", "f", "d"]) if depth < 2 else "f"
        e = {"kind": kind}
        e.update(_stamps(rng))
        r = rng.random()
        if r < 0.45:
            # long name + alias
            nm = rng.choice(["Foreign File %d.txt", "readme-%d.markdown", "Übung %d.doc", "Жук %d", "a%d.b.c", "UPPER%d.TXT",
                             "name with thirteen chars %d padded to 26!!", "x%d"]) % (i + depth * 10)
            e["name"] = nm
            e["sfn"] = _alias(i + depth * 10, nm)
        elif r < 0.8:
            # short name only, with NT lower-case flags
            base = "".join(rng.choice("ABCDEFGHKLMNPQRSTUVWXYZ0123456789_-") for _ in range(rng.randrange(1, 9)))
            ext = "".join(rng.choice("ABCDEFGH123") for _ in range(rng.randrange(0, 4)))
            e["sfn"] = base.ljust(8) + ext.ljust(3)
            e["nt"] = rng.choice([0, 8, 16, 24])
        elif r < 0.9:
            # 0x05 lead byte stands for 0xE5
            e["sfn"] = [5] + [ord(c) for c in "E5NAME%d" % (i % 10)][:7] + [ord(c) for c in "BIN"]
        else:
            if oem_high and not any(isinstance(x.get("sfn"), list) and x["sfn"][0] == ord("O") for x in entries):
                e["sfn"] = [ord("O"), 0x80 + i, 0x9A, ord("M"), 32, 32, 32, 32, ord("T"), 0xE1, 32]
            else:
                e["sfn"] = ("SFN%d" % i).ljust(8) + "   "
        key = bytes(e["sfn"]) if isinstance(e["sfn"], list) else e["sfn"].encode()
        if key in used:
            continue
        used.add(key)
        # attributes: read-only, hidden, system, archive in all combinations
        e["attr"] = rng.choice([0, 1, 2, 4, 0x20, 0x21, 0x27, 0x06])
        # junk before the entry: deleted slots and orphaned (deleted) long-name runs
        pre = []
        if rng.random() < 0.3:
            pre.append({"t": "del", "fill": rng.randrange(256)})
        if rng.random() < 0.2:
            pre.append({"t": "orphan", "name": "deleted long name %d.tmp" % i, "chk": rng.randrange(256)})
        if pre:
            e["pre"] = pre
        if rng.random() < 0.25:
            e["ea"] = rng.choice([1, 2, 0x10, 0xFFFF])      # FAT12/16: extended-attribute handle of another system in the word at offset 20
        if kind == "f":
            e["size"] = rng.choice([0, 1, cs - 1, cs, cs + 1, 2 * cs, 3 * cs + 17])
            e["pat"] = rng.randrange(1, 1000)
            e["slack"] = rng.random() < 0.5
        else:
            e["children"] = foreign_tree(rng, cs, depth + 1, rng.randrange(0, 4), oem_high)
            e["extra_clusters"] = rng.choice([0, 0, 1])
            e["noend"] = rng.random() < 0.15
        entries.append(e)
    if depth == 0 and rng.random() < 0.7:
        # (a label slot is one whose attribute byte has the volume bit; other writers set the archive / read-only / hidden bits next to it)
        entries.insert(rng.randrange(len(entries) + 1), {"kind": "v", "sfn": "MY LABEL   ", "attr": rng.choice([0x08, 0x08, 0x28, 0x09, 0x0A, 0x28])})
    return entries


def foreign_volume(rng, ft, quick=True):
    bps = rng.choice([512, 512, 1024, 2048, 4096])
    spc = rng.choice([1, 1, 2, 4] if ft != 12 else [1, 2])
    if ft == 12:
        n = rng.choice([rng.randrange(60, 200), rng.randrange(60, 200), 4084])
    elif ft == 16:
        n = rng.choice([4085, 4090, 5000, 65524])
    else:
        n = rng.choice([65525, 65530, 70000])
    nfats = rng.choice([1, 2, 3])
    vol = {"kind": "builder", "ft": ft, "bps": bps, "spc": spc, "n": n, "nfats": nfats,
           "alloc": rng.choice(["asc", "desc", "interleave", "random"]), "seed": rng.randrange(1 << 30),
           "media": rng.choice([0xF8, 0xF0]), "tail": rng.choice([0, 4096]), "slack_sectors": rng.randrange(0, spc)}
    cs = bps * spc
    eoc = {12: [0xFF8, 0xFFF, 0xFFB], 16: [0xFFF8, 0xFFFF, 0xFFFC], 32: [0x0FFFFFF8, 0x0FFFFFFF, 0x0FFFFFFA]}[ft]
    vol["eoc"] = rng.sample(eoc, rng.randrange(1, 4))
    if ft == 32:
        vol["rsvd"] = rng.choice([32, 8, 64, 33])
        vol["fis"] = rng.choice([1, 2, 5])
        vol["bks"] = rng.choice([6, 7, 3])
        if vol["fis"] == vol["bks"]:
            vol["bks"] = 6 if vol["fis"] != 6 else 7
        vol["rootc"] = rng.choice([2, 2, 3, 9])
        vol["hi"] = rng.choice(["none", "pattern"])
        vol["free_hi"] = rng.choice([0, 0, 0xC])
        # the FSInfo values are advisory: stale counts are legal
        vol["fsinfo"] = {"free": rng.choice(["exact", "unknown", "exact", "low", "high", 0, 1, n]), "next": rng.choice(["unknown", 2, 40, n + 1])}
        if nfats > 1 and rng.random() < 0.5:
            vol["mirror"] = False
            vol["active"] = rng.randrange(nfats)
        elif rng.random() < 0.4:
            vol["stale_active"] = rng.randrange(1, 4)      # mirroring on: the active-FAT nibble is to be ignored
        vol["root_extra_clusters"] = rng.choice([0, 1])
    else:
        vol["rsvd"] = rng.choice([1, 1, 2, 9])
        vol["rootn"] = rng.choice([16, 32, 64, 512]) * (bps // 512) + rng.choice([0, 0, 0, 1, 4, 9])    # (also root areas that end inside a sector)
        vol["use_ts16"] = rng.random() < 0.7
    bad = []
    if rng.random() < 0.5:
        a = rng.randrange(10, 30)
        bad.append([a, a + rng.randrange(0, 3)])
    vol["bad"] = bad
    vol["pad"] = rng.choice(["eoc", "eoc", "zero"])
    vol["extra_fat_sectors"] = rng.choice([0, 0, 1])
    oem = rng.choice(["lossy", "latin1"])
    vol["oem"] = oem
    vol["tree"] = foreign_tree(rng, cs, 0, rng.randrange(3, 8), oem_high=True)
    return vol, cs, oem


def _names_of(tree, prefix=""):
    """(path, kind, lookup names) of the entries of a foreign tree, for targeted operations"""
    out = []
    for e in tree:
        if e["kind"] == "v":
            continue
        if "name" in e:
            nm = e["name"]
        else:
            raw = e["sfn"] if isinstance(e["sfn"], str) else None
            if raw is None:
                continue  # OEM / 0x05 names: not addressed by the generator
            b, x = raw[:8].rstrip(), raw[8:].rstrip()
            nm = b + ("." + x if x else "")
        out.append((prefix + nm, e["kind"]))
        if e["kind"] == "d":
            out += _names_of(e.get("children", []), prefix + nm + "/")
    return out


def foreign_program(rng, pid, vol, cs, oem, n_ops=12):
    cfg = {"vol": vol, "oem": oem}
    known = _names_of(vol["tree"])
    files = [p for p, k in known if k == "f"]
    dirs = [p for p, k in known if k == "d"]
    ops = [{"op": "stats"}, {"op": "info"}, {"op": "status"}, {"op": "list", "at": "", "path": ""}]
    n = 0
    open_h = {}
    for _ in range(n_ops):
        r = rng.random()
        n += 1
        if r < 0.25 and files:
            f = rng.choice(files)
            if f in open_h.values():
                continue
            h = "h%d" % n
            ops.append({"op": "open_file", "at": "", "path": f if rng.random() < 0.6 else f.swapcase(), "as": h})
            ops.append({"op": "read_all", "h": h, "len": 4 * cs})
            ops.append({"op": "extents", "h": h})
            a = rng.random()
            if a < 0.3:
                ops.append({"op": "seek", "h": h, "from": "end", "off": 0})
                ops.append({"op": "write_all", "h": h, "pat": n, "len": rng.choice([1, cs, cs + 3])})
            elif a < 0.5:
                ops.append({"op": "seek", "h": h, "from": "start", "off": rng.choice([0, 1, cs])})
                ops.append({"op": "truncate", "h": h})
            elif a < 0.6:
                ops.append({"op": "seek", "h": h, "from": "start", "off": 0})
                ops.append({"op": "write_all", "h": h, "pat": n, "len": rng.choice([1, cs])})
            ops.append({"op": "close", "h": h})
        elif r < 0.4:
            d = rng.choice([""] + [x + "/" for x in dirs])
            ops.append({"op": "create_file", "at": "", "path": d + "new file %d.txt" % n, "as": "c%d" % n})
            ops.append({"op": "write_all", "h": "c%d" % n, "pat": n, "len": rng.choice([0, 5, cs + 1])})
            ops.append({"op": "close", "h": "c%d" % n})
        elif r < 0.5:
            d = rng.choice([""] + [x + "/" for x in dirs])
            ops.append({"op": "create_dir", "at": "", "path": d + "newdir%d" % n})
        elif r < 0.65 and files:
            f = rng.choice(files)
            ops.append({"op": "remove", "at": "", "path": f})
            files.remove(f)
        elif r < 0.8 and files:
            f = rng.choice(files)
            d = rng.choice([""] + [x + "/" for x in dirs])
            g = d + "moved %d.dat" % n
            ops.append({"op": "rename", "at": "", "src": f, "to": "", "dst": g})
            files.remove(f)
            files.append(g)
        elif r < 0.86 and dirs and not open_h:
            # a directory moves (into the root or into another directory that is not inside it)
            d = rng.choice(dirs)
            tgt = [x for x in [""] + [y + "/" for y in dirs] if not (x + "/").startswith(d + "/") and x != d + "/"]
            g = rng.choice(tgt) + "mvdir%d" % n
            ops.append({"op": "rename", "at": "", "src": d, "to": "", "dst": g})
            ops.append({"op": "list", "at": "", "path": g})
            files = [g + x[len(d):] if (x + "/").startswith(d + "/") else x for x in files]
            dirs = [g + x[len(d):] if (x + "/").startswith(d + "/") else x for x in dirs]
        elif r < 0.92 and dirs:
            ops.append({"op": "list", "at": "", "path": rng.choice(dirs)})
        else:
            ops.append({"op": "stats"})
    ops.append({"op": rng.choice(["unmount", "dropfs"])})
    ops.append({"op": "list", "at": "", "path": ""})
    ops.append({"op": "stats"})
    ops.append({"op": "unmount"})
    return {"id": pid, "cfg": cfg, "ops": ops, "origin": "foreign"}


def foreign_high_program(rng, pid, rewrite=0.3):
    """a FAT32 volume whose whole tree lives in clusters numbered 65536 and above (both halves of every first-cluster field in use):
    files are emptied, shortened and rewritten, directories and files move into the root and between directories"""
    vol, cs, oem = foreign_volume(rng, 32)
    vol.update({"n": rng.choice([70000, 66500, 131100]), "alloc": "desc", "bps": 512, "spc": 1, "slack_sectors": 0, "bad": []})
    cs = 512

    def f(name, sfn, size):
        e = {"kind": "f", "name": name, "sfn": sfn, "size": size, "pat": rng.randrange(1, 1000), "attr": 0x20}
        e.update(_stamps(rng))
        return e

    def d(name, sfn, children):
        e = {"kind": "d", "name": name, "sfn": sfn, "children": children, "attr": 0x10}
        e.update(_stamps(rng))
        return e
    vol["tree"] = foreign_tree(rng, cs, 0, rng.randrange(2, 5), oem_high=False) + [
        d("High Dir A", "HIGHDI~1   ", [d("Inner Dir", "INNERD~1   ", [f("deep file.bin", "DEEPFI~1BIN", cs + 7)]), f("in a.txt", "INA~1   TXT", 3 * cs)]),
        d("High Dir B", "HIGHDI~2   ", [f("in b.txt", "INB~1   TXT", 1)]),
        f("top one.dat", "TOPONE~1DAT", 2 * cs + 1), f("top two.dat", "TOPTWO~1DAT", cs)]
    # chains that begin exactly at a multiple of 65536: the low half of the first-cluster field is zero, the high half is not
    edge = f("edge file.bin", "EDGEFI~1BIN", cs + 5)
    edge["chain"] = [65536, 65537]
    vol["tree"].append(edge)
    if vol["n"] > 131080:
        ed = d("Edge Dir", "EDGEDI~1   ", [f("inside.txt", "INSIDE  TXT", 9)])
        ed["chain"] = [131072]
        vol["tree"].append(ed)
    known = _names_of(vol["tree"])
    files = [p for p, k in known if k == "f"]
    ops = [{"op": "stats"}, {"op": "list", "at": "", "path": ""}]
    if vol["n"] > 131080:
        ops += [{"op": "list", "at": "", "path": "Edge Dir"}, {"op": "create_file", "at": "", "path": "Edge Dir/new in edge.txt"}]
    ops += [{"op": "open_file", "at": "", "path": "edge file.bin", "as": "eg"}, {"op": "read_all", "h": "eg", "len": 3 * cs}, {"op": "extents", "h": "eg"},
            {"op": "seek", "h": "eg", "from": "end", "off": 0}, {"op": "write_all", "h": "eg", "pat": 77, "len": cs}, {"op": "close", "h": "eg"}]
    n = 0
    for fl in files:
        n += 1
        a = rng.random()
        if a < 0.7:
            h = "h%d" % n
            ops.append({"op": "open_file", "at": "", "path": fl, "as": h})
            ops.append({"op": "seek", "h": h, "from": "start", "off": rng.choice([0, 0, 0, 0, 1, cs])})
            ops.append({"op": "truncate", "h": h})
            if rng.random() < rewrite:
                ops.append({"op": "write_all", "h": h, "pat": n, "len": rng.choice([1, cs + 1])})
            ops.append({"op": "close", "h": h})
    # some of the emptied / shortened files are removed again (everything they owned must come back, nothing more)
    ops.append({"op": "stats"})
    for fl in files:
        if "/" not in fl and rng.random() < 0.8:
            ops.append({"op": "remove", "at": "", "path": fl})
            ops.append({"op": "stats"})
    moves = [("High Dir A/Inner Dir", "inner at top"), ("High Dir B", "High Dir A/b below a"), ("High Dir A/b below a", "b back"),
             ("High Dir A/in a.txt", "a file at top.txt"), ("High Dir A", "b back/a below b"), ("b back/a below b", "a back")]
    for src, dst in moves[:rng.randrange(3, 7)]:
        ops.append({"op": "rename", "at": "", "src": src, "to": "", "dst": dst})
        ops.append({"op": "list", "at": "", "path": dst if "." not in dst else ""})
    ops.append({"op": "create_dir", "at": "", "path": "fresh"})
    ops.append({"op": rng.choice(["unmount", "dropfs"])})
    ops.append({"op": "list", "at": "", "path": ""})
    ops.append({"op": "stats"})
    ops.append({"op": "unmount"})
    return {"id": pid, "cfg": {"vol": vol, "oem": oem}, "ops": ops, "origin": "foreign-high"}


def large_volume(kind, hint, rng):
    """sparse builder volumes from 4 GiB to 2 TiB and up to the FAT32 cluster limit (C20)"""
    if kind == "4g":
        bps, spc = 512, 8
        n = (1 << 20) + 2000
    elif kind == "1t":
        bps, spc = 512, 64
        n = (1 << 25) + 4000
    elif kind == "2t":
        bps, spc = 512, 64
        n = ((1 << 32) - 1 - 32 - 2 * (((1 << 26) * 4 + 511) // 512)) // 64 - 8
    elif kind == "limit4k":
        bps, spc = 4096, 1
        n = 0x0FFFFFF5
    else:
        raise KeyError(kind)
    cs = bps * spc
    vol = {"kind": "builder", "ft": 32, "bps": bps, "spc": spc, "n": n, "nfats": rng.choice([1, 2]), "rsvd": 32, "cell": cs // 2,
           "tree": [{"kind": "f", "name": "first.bin", "sfn": "FIRST   BIN", "size": cs + cs // 2, "pat": 3},
                    {"kind": "d", "name": "dir", "sfn": "DIR        ", "children": []}]}
    if spc > 1 and rng.random() < 0.6:
        # the data area does not end on a cluster boundary: the sectors left over belong to no cluster
        vol["slack_sectors"] = rng.choice([1, spc // 2, spc - 1])
    last = n + 1
    first_data_bytes = (32 + vol["nfats"] * (((n + 2) * 4 + bps - 1) // bps)) * bps
    marks = {"last": last, "before_last": last - 1, "past": last + 1, "unknown": "unknown",
             "4g": (4 << 30) // cs + 2 - first_data_bytes // cs, "2g": (2 << 30) // cs + 2, "1t": (1 << 40) // cs + 2 - first_data_bytes // cs}
    h = marks[hint]
    if isinstance(h, int) and (h < 2 or h > last + 1):
        h = last - 3
    vol["fsinfo"] = {"free": "exact", "next": h}
    bad = []
    if hint in ("last", "before_last"):
        # make the scan from the hint run into the end quickly and wrap: a few BAD clusters at the start too
        bad.append([5, 6])
    vol["bad"] = bad
    return vol, cs


def large_last_program(rng, pid, kind, hint):
    """the session ends right after the very last cluster of the volume was handed out (hint at the last cluster: one cluster written;
    just before it: two): the hint stored at unmount must have wrapped into the volume"""
    vol, cs = large_volume(kind, hint, rng)
    n = 1 if hint == "last" else 2
    ops = [{"op": "stats"}, {"op": "create_file", "at": "", "path": "tail end.dat", "as": "a"}, {"op": "write_all", "h": "a", "pat": 5, "len": n * cs},
           {"op": "extents", "h": "a"}, {"op": "close", "h": "a"}, {"op": rng.choice(["unmount", "dropfs"])}, {"op": "stats"},
           {"op": "open_file", "at": "", "path": "tail end.dat", "as": "b"}, {"op": "read_all", "h": "b", "len": 2 * cs}, {"op": "close", "h": "b"}, {"op": "unmount"}]
    return {"id": pid, "cfg": {"vol": vol, "cell": cs // 2}, "ops": ops, "origin": "large-last:%s:%s" % (kind, hint)}


def large_program(rng, pid, kind, hint):
    vol, cs = large_volume(kind, hint, rng)
    cfg = {"vol": vol, "cell": cs // 2}
    ops = [{"op": "stats"},
           {"op": "create_file", "at": "", "path": "big one.dat", "as": "a"},
           {"op": "write_all", "h": "a", "pat": 7, "len": 3 * cs},
           {"op": "flush", "h": "a"},
           {"op": "extents", "h": "a"},
           {"op": "seek", "h": "a", "from": "start", "off": cs // 2},
           {"op": "read_all", "h": "a", "len": 2 * cs},
           {"op": "create_file", "at": "", "path": "dir/second.dat", "as": "b"},
           {"op": "write_all", "h": "b", "pat": 8, "len": cs + cs // 2},
           {"op": "close", "h": "b"},
           {"op": "seek", "h": "a", "from": "start", "off": cs},
           {"op": "truncate", "h": "a"},
           {"op": "write_all", "h": "a", "pat": 9, "len": 2 * cs},
           {"op": "close", "h": "a"},
           {"op": "stats"},
           {"op": "open_file", "at": "", "path": "FIRST.BIN", "as": "f"},
           {"op": "read_all", "h": "f", "len": 2 * cs},
           {"op": "seek", "h": "f", "from": "end", "off": 0},
           {"op": "write_all", "h": "f", "pat": 4, "len": cs},
           {"op": "extents", "h": "f"},
           {"op": "close", "h": "f"},
           {"op": "open_file", "at": "", "path": "big one.dat", "as": "g"},
           {"op": "seek", "h": "g", "from": "start", "off": 0},
           {"op": "truncate", "h": "g"},
           {"op": "write_all", "h": "g", "pat": 11, "len": cs + cs // 2},
           {"op": "close", "h": "g"},
           {"op": "open_file", "at": "", "path": "BIG ONE.DAT", "as": "g2"},
           {"op": "read_all", "h": "g2", "len": 2 * cs},
           {"op": "extents", "h": "g2"},
           {"op": "close", "h": "g2"},
           # entries whose clusters lie far out are renamed, moved into a directory and back, a directory is moved
           {"op": "rename", "at": "", "src": "big one.dat", "to": "", "dst": "dir/big moved.dat"},
           {"op": "open_file", "at": "", "path": "dir/big moved.dat", "as": "g3"},
           {"op": "read_all", "h": "g3", "len": 2 * cs},
           {"op": "extents", "h": "g3"},
           {"op": "close", "h": "g3"},
           {"op": "create_dir", "at": "", "path": "far dir"},
           {"op": "rename", "at": "", "src": "dir/second.dat", "to": "", "dst": "far dir/second.dat"},
           {"op": "rename", "at": "", "src": "far dir", "to": "", "dst": "dir/far dir"},
           {"op": "list", "at": "", "path": "dir/far dir"},
           {"op": "rename", "at": "", "src": "dir/far dir/second.dat", "to": "", "dst": "dir/second.dat"},
           {"op": "rename", "at": "", "src": "dir/big moved.dat", "to": "", "dst": "big one.dat"},
           {"op": "unmount"},
           {"op": "remove", "at": "", "path": "big one.dat"},
           {"op": "stats"},
           {"op": "unmount"},
           {"op": "stats"},
           {"op": "open_file", "at": "", "path": "dir/second.dat", "as": "c"},
           {"op": "read_all", "h": "c", "len": 2 * cs},
           {"op": "close", "h": "c"},
           {"op": "unmount"}]
    return {"id": pid, "cfg": cfg, "ops": ops, "origin": "large:%s:%s" % (kind, hint)}


# ------------------------------------------------------------------------------------------------
# C17: arbitrary directory contents

def _chk(raw):
    c = 0
    for b in raw:
        c = (((c & 1) << 7) + (c >> 1) + b) & 0xFF
    return c


def sfn_slot(raw, attr=0x20, nt=0, cl=0, size=0, dates=(0x5021, 0x6000, 0, 0x5021, 0x6000, 0x5021)):
    s = list(raw[:11]) + [attr, nt, dates[2]]
    s += [dates[1] & 255, dates[1] >> 8, dates[0] & 255, dates[0] >> 8, dates[5] & 255, dates[5] >> 8, (cl >> 16) & 255, (cl >> 24) & 255,
          dates[4] & 255, dates[4] >> 8, dates[3] & 255, dates[3] >> 8, cl & 255, (cl >> 8) & 255]
    s += [size & 255, (size >> 8) & 255, (size >> 16) & 255, (size >> 24) & 255]
    return s


def lfn_slot(order, chk, units13, attr=0x0F, ty=0, cl=0):
    u = list(units13) + [0xFFFF] * 13
    s = [order]
    for k in range(5):
        s += [u[k] & 255, u[k] >> 8]
    s += [attr, ty, chk]
    for k in range(5, 11):
        s += [u[k] & 255, u[k] >> 8]
    s += [cl & 255, cl >> 8]
    for k in range(11, 13):
        s += [u[k] & 255, u[k] >> 8]
    return s


def lfn_run_slots(name_units, chk):
    n = (len(name_units) + 12) // 13
    p = list(name_units)
    if len(p) % 13:
        p.append(0)
        while len(p) % 13:
            p.append(0xFFFF)
    out = []
    for k in range(n - 1, -1, -1):
        out.append(lfn_slot((k + 1) | (0x40 if k == n - 1 else 0), chk, p[k * 13:k * 13 + 13]))
    return out


def orphan_cases(rng, quick=True):
    """an orphaned beginning of a long-name run (its "last" slot and perhaps more: a creation cut off by a power cut, or a foreign writer),
    directly followed by the complete run of another entry whose name fills its slots exactly (no terminator on disk) or not"""
    dirs = []
    raw = [ord(c) for c in "TARGET  TXT"]
    good = _chk(raw)
    tail = [sfn_slot([ord(c) for c in "AFTER   BIN"], size=3)]
    for order in (2, 3, 5, 20):
        for kept in (1, 2) if order > 2 else (1,):
            for ln in (12, 13, 14, 25, 26, 27, 39) if quick else range(1, 66):
                for ck in (good, good ^ 0x33):
                    orphan_name = [ord("z") - (k % 7) for k in range(order * 13 - rng.choice([0, 3]))]
                    orphan = lfn_run_slots(orphan_name, ck)[:kept]
                    name = [ord("n") if k % 2 else ord("e") for k in range(ln)]
                    dirs.append(orphan + lfn_run_slots(name, good) + [sfn_slot(raw)] + tail)
    return dirs


def half_deleted_cases(quick=True):
    """a complete long-name run of n slots of which the first k (or the last k, or one in the middle) carry the deleted mark 0xE5 while the
    rest and the short entry are live (a removal / rename cut off after some slots, or another writer): 0xE5 read as an order byte is
    "last flag + bit 5 + index 5", so runs of five (and 0x45-like lengths) matter; the run is broken, the short name must be returned"""
    dirs = []
    raw = [ord(c) for c in "TARGET  TXT"]
    good = _chk(raw)
    tail = [sfn_slot([ord(c) for c in "AFTER   BIN"], size=3)]
    for n in (range(1, 9) if quick else range(1, 21)):
        name = [ord("a") + (k % 26) for k in range(n * 13 - 2)]
        run = lfn_run_slots(name, good)
        for k in range(1, n + 1):
            marks = [set(range(k)), set(range(n - k, n)), {k - 1}]
            for m in marks:
                sl = [([0xE5] + x[1:]) if i in m else x for i, x in enumerate(run)]
                dirs.append(sl + [sfn_slot(raw)] + tail)
                dirs.append([lfn_slot(0x41, good ^ 1, [0x7A] * 13)] + sl + [sfn_slot(raw)] + tail)
    return dirs


def interrupted_run_cases():
    """a complete long-name run into which one foreign slot was INSERTED (deleted slot, volume label, long-name slot with index 0) and that
    continues consistently behind it: the run is broken (its beginning is cut off), the reader must fall back to the short name - and must
    not resume the interrupted run with what it remembered; and short names whose first byte is 0x05 (the escape for 0xE5): the checksum of
    the run is the checksum of the eleven bytes as stored"""
    dirs = []
    raw = [ord(c) for c in "TARGET  TXT"]
    good = _chk(raw)
    tail = [sfn_slot([ord(c) for c in "AFTER   BIN"], size=3)]
    inserts = [[0xE5] + sfn_slot([ord(c) for c in "GONE    TMP"])[1:], [0xE5] + lfn_slot(0x41, good, [0x71] * 13)[1:],
               sfn_slot([ord(c) for c in "LABEL      "], attr=0x08), lfn_slot(0x40, good, [0x7A] * 13), lfn_slot(0x20, good, [0x7A] * 13)]
    for n in (2, 3, 4, 5):
        for ln in (n * 13, n * 13 - 4):
            run = lfn_run_slots([ord("a") + (k % 26) for k in range(ln)], good)
            for at in range(1, n):
                for ins in inserts:
                    dirs.append(run[:at] + [ins] + run[at:] + [sfn_slot(raw)] + tail)
                    dirs.append(run[:at] + [ins, ins] + run[at:] + [sfn_slot(raw)] + tail)
    raw5 = [0x05] + [ord(c) for c in "ILE    TXT"]
    rawE = [0xE5] + raw5[1:]
    for ck in (_chk(raw5), _chk(rawE)):
        for ln in (5, 13, 20):
            dirs.append(lfn_run_slots([ord("k") + (k % 7) for k in range(ln)], ck) + [sfn_slot(raw5)] + tail)
            dirs.append(lfn_run_slots([ord("k") + (k % 7) for k in range(ln)], ck) + [sfn_slot(raw5, attr=0x10)] + tail)
    return dirs


def single_slot_cases():
    """one long-name slot of every order / last-flag / checksum / deleted pattern, followed by a file, a directory, a label, a deleted
    entry or the end"""
    dirs = []
    raw = [ord(c) for c in "TARGET  TXT"]
    good = _chk(raw)
    tail = [sfn_slot([ord(c) for c in "AFTER   BIN"], size=3)]
    followers = [[sfn_slot(raw)], [sfn_slot(raw, attr=0x10)], [sfn_slot([ord(c) for c in "LABEL      "], attr=0x08)], [[0xE5] + sfn_slot(raw)[1:]], []]
    for o in [0, 1, 2, 3, 4, 20, 21, 63]:
        for last in (0, 0x40):
            for ck in (good, good ^ 0x5A):
                for dele in (False, True):
                    for name in ([ord("a") + (o % 26)] + [0] + [0xFFFF] * 11, [ord("q")] * 13):
                        s = lfn_slot(o | last, ck, name)
                        if dele:
                            s = [0xE5] + s[1:]
                        for f in followers:
                            dirs.append([s] + f + tail)
    return dirs


def dir_cases(rng, quick=True):
    """list of directories (lists of 32-byte slots)"""
    dirs = orphan_cases(rng, quick) + single_slot_cases() + half_deleted_cases(quick) + interrupted_run_cases()
    raw = [ord(c) for c in "TARGET  TXT"]
    good = _chk(raw)
    tail = [sfn_slot([ord(c) for c in "AFTER   BIN"], size=3)]
    followers = [
        [sfn_slot(raw)],
        [sfn_slot(raw, attr=0x10)],
        [sfn_slot([ord(c) for c in "LABEL      "], attr=0x08)],
        [[0xE5] + sfn_slot(raw)[1:]],
        [],  # END right after the run
    ]
    orders = [0, 1, 2, 3, 4, 20, 21, 63]
    one = []
    for o in orders:
        for last in (0, 0x40):
            for ck in (good, good ^ 0x5A):
                for dele in (False, True):
                    s = lfn_slot(o | last, ck, [ord("a") + (o % 26)] + [0, ] + [0xFFFF] * 11)
                    if dele:
                        s = [0xE5] + s[1:]
                    one.append(s)
    # runs of length 1 and 2 exhaustively, length 3 sampled (quick) or exhaustively (thorough)
    for a in one:
        for f in followers:
            dirs.append([a] + f + tail)
    pairs = [(a, b) for a in one for b in one]
    if quick:
        pairs = rng.sample(pairs, 1500)
    for a, b in pairs:
        dirs.append([a, b] + rng.choice(followers) + tail)
    triples = 3000 if quick else 120000
    for _ in range(triples):
        dirs.append([rng.choice(one), rng.choice(one), rng.choice(one)] + rng.choice(followers) + tail)
    # well-formed runs of every length 1..20 (260 units at 20 slots), with and without terminator
    for n in ([1, 2, 13, 14, 19, 20] if quick else range(1, 21)):
        for ln in (n * 13, n * 13 - 1, n * 13 - 12):
            name = [ord("A") + (k % 26) for k in range(ln)]
            dirs.append(lfn_run_slots(name, good) + [sfn_slot(raw)] + tail)
    # names around the 255-unit limit that contain valid surrogate pairs (a pair is one character but two units), also straddling slots
    for ln in (254, 255, 256, 257, 259, 260):
        for pairs_n in (1, 2, 5, 6) if quick else (1, 2, 3, 4, 5, 6, 20, 100):
            for _rep in range(1 if quick else 3):
                name = [ord("a") + (k % 26) for k in range(ln)]
                for _p in range(pairs_n):
                    at = rng.choice([0, 12, 25, rng.randrange(0, ln - 1), ln - 2])
                    if all(0xD800 > name[x] or name[x] > 0xDFFF for x in (at, at + 1)):
                        name[at], name[at + 1] = 0xD83D, 0xDE00 + rng.randrange(64)
                dirs.append(lfn_run_slots(name, good) + [sfn_slot(raw)] + tail)
    # unpaired surrogates, NUL in the middle, 0xFFFF characters, garbage before a complete run
    for name in ([0xD800, 0x61], [0x61, 0xDC00], [0xD800, 0xD800], [0x61, 0, 0x62], [0xFFFF, 0x61], [0x61, 0xFFFF], [0xFFFF] * 13, [0] * 13, [0x61] * 13 + [0xFFFF]):
        dirs.append(lfn_run_slots(name, good) + [sfn_slot(raw)] + tail)
        dirs.append([lfn_slot(0x42, good, [0x7A] * 13)] + lfn_run_slots(name, good) + [sfn_slot(raw)] + tail)
    # every value of every byte of a long-name slot and of a short slot, in three contexts
    base_l = lfn_run_slots([ord(c) for c in "target-long.txt"], good)
    base_s = sfn_slot(raw, dates=(0x5021, 0x6000, 50, 0x5021, 0x6000, 0x5021))
    vals = range(256) if not quick else list(range(0, 256, 5)) + [0xE5, 0x0F, 0x1F, 0x2F, 0x3F, 0x40, 0x41, 0x42, 0xFF, 0x05, 0x20, 0x2E]
    for pos in range(32):
        for v in vals:
            m = list(base_l[0])
            m[pos] = v
            dirs.append([m, base_l[1], base_s] + tail)                       # first slot of a two-slot run
            m2 = list(base_l[1])
            m2[pos] = v
            dirs.append([base_l[0], m2, base_s] + tail)                      # second slot
            ms = list(base_s)
            ms[pos] = v
            dirs.append(base_l + [ms] + tail)                                # the short slot after a valid run
            if not quick or v % 3 == 0:
                dirs.append([ms] + tail)                                     # a short slot alone
    # random slot soup
    for _ in range(2000 if quick else 200000):
        d = []
        for _k in range(rng.randrange(1, 12)):
            r = rng.random()
            if r < 0.35:
                s = lfn_slot(rng.choice(orders + [0x41, 0x42, 0x43, 0x81, 0x22]), rng.choice([good, rng.randrange(256)]),
                             [rng.choice([0x41, 0, 0xFFFF, 0xD800, 0x20AC, rng.randrange(65536)]) for _ in range(13)],
                             attr=rng.choice([0x0F, 0x0F, 0x0F, 0x1F, 0x3F, 0x4F, 0x8F]), ty=rng.choice([0, 0, 1, 0x3F]), cl=rng.choice([0, 0, 5]))
            elif r < 0.7:
                nm = [rng.choice([0x41, 0x5A, 0x20, 0x2E, 0x05, 0xE5, 0x7E, 0x31, 0x80, 0xFF, 0x2A, 0x61]) for _ in range(11)]
                s = sfn_slot(nm if rng.random() < 0.5 else raw, attr=rng.choice([0, 0x10, 0x20, 0x08, 0x18, 0x28, 0x01, 0x16, 0xC0 | 0x20]), nt=rng.randrange(256), size=rng.randrange(1 << 31) if rng.random() < 0.3 else 0,
                             dates=tuple(rng.randrange(65536) if i != 2 else rng.randrange(256) for i in range(6)))
            elif r < 0.85:
                s = [rng.randrange(256) for _ in range(32)]
                s[20] = s[21] = s[26] = s[27] = 0     # cluster pointers stay valid (0 = none)
                if s[0] == 0:
                    s[0] = 1
            else:
                s = [0xE5] + [rng.randrange(256) for _ in range(31)]
            if s[11] & 0x0F != 0x0F:
                s[20] = s[21] = s[26] = s[27] = 0
                if s[11] & 0x10:
                    s[11] &= ~0x10 & 0xFF     # no directory entries without a valid cluster
            d.append(s)
        dirs.append(d)
    return dirs


# ------------------------------------------------------------------------------------------------
# multi-session families

def dirty_fault_program(rng, pid, cfg, cs):
    """the first change of a session hits a transient storage error on one of its first device calls (the write of the status byte is
    among them), the program goes on: every later structural change must still be bracketed by the dirty bit"""
    ops = [{"op": "create_file", "at": "", "path": "a.bin", "as": "p"}, {"op": "write_all", "h": "p", "pat": 1, "len": cs + 5}, {"op": "close", "h": "p"},
           {"op": "create_dir", "at": "", "path": "d"}, {"op": "unmount"}]
    first = rng.choice(["write", "create", "mkdir", "remove", "rename"])
    at = len(ops)
    if first == "write":
        ops += [{"op": "open_file", "at": "", "path": "a.bin", "as": "h"}, {"op": "seek", "h": "h", "from": "end", "off": 0}]
        at = len(ops)
        ops += [{"op": "write_all", "h": "h", "pat": 2, "len": cs}, {"op": "write_all", "h": "h", "pat": 3, "len": cs}, {"op": "close", "h": "h"}]
    elif first == "create":
        ops += [{"op": "create_file", "at": "", "path": "new one.txt"}, {"op": "create_file", "at": "", "path": "new one.txt"}]
    elif first == "mkdir":
        ops += [{"op": "create_dir", "at": "", "path": "d/sub"}, {"op": "create_dir", "at": "", "path": "d/sub"}]
    elif first == "remove":
        ops += [{"op": "remove", "at": "", "path": "a.bin"}, {"op": "remove", "at": "", "path": "a.bin"}]
    else:
        ops += [{"op": "rename", "at": "", "src": "a.bin", "to": "", "dst": "d/moved.bin"}, {"op": "rename", "at": "", "src": "a.bin", "to": "", "dst": "d/moved.bin"}]
    ops += [{"op": "create_file", "at": "", "path": "later.txt", "as": "q"}, {"op": "write_all", "h": "q", "pat": 4, "len": 2 * cs}, {"op": "close", "h": "q"},
            {"op": "create_dir", "at": "", "path": "later dir"}, {"op": rng.choice(["abandon", "unmount", "dropfs"])}, {"op": "list", "at": "", "path": ""}, {"op": "unmount"}]
    return {"id": pid, "cfg": cfg, "ops": ops, "fault": {"at": at, "k": rng.randrange(1, 9), "continue": True}, "origin": "dirty-fault"}


def crash_reuse_program(rng, pid, cfg, cs):
    """a file is emptied (or shortened) and left that way; after a remount another file takes the space and is flushed; then the first
    file is written again: the flushed file was not touched and must survive every later power cut unchanged (C14)"""
    cfg = dict(cfg, wlog=True)
    k = rng.choice([1, 2, 3])
    ops = [{"op": "create_file", "at": "", "path": "victim.bin", "as": "a"}, {"op": "write_all", "h": "a", "pat": 5, "len": k * cs + rng.choice([0, 7])},
           {"op": "flush", "h": "a"}, {"op": "seek", "h": "a", "from": "start", "off": rng.choice([0, 0, 0, cs])}, {"op": "truncate", "h": "a"}, {"op": "close", "h": "a"},
           {"op": rng.choice(["unmount", "dropfs"])},
           {"op": "create_file", "at": "", "path": "keep.txt", "as": "b"}, {"op": "write_all", "h": "b", "pat": 6, "len": (k + 1) * cs - 3},
           {"op": rng.choice(["flush", "close"]), "h": "b"},
           {"op": "open_file", "at": "", "path": "victim.bin", "as": "a2"}, {"op": "seek", "h": "a2", "from": "end", "off": 0},
           {"op": "write_all", "h": "a2", "pat": 7, "len": rng.choice([10, cs, 2 * cs])}, {"op": "close", "h": "a2"},
           {"op": "create_dir", "at": "", "path": "after"}, {"op": "unmount"}]
    return {"id": pid, "cfg": cfg, "ops": ops, "crash": {"stride": 1}, "origin": "crash:reuse"}


def gap_program(rng, pid, cfg):
    """names of many lengths are created next to each other, some are removed, others (needing as many slots, one more, one less) take
    the gaps by creation or by renaming: every name that was not touched must still be listed character for character"""
    ops = [{"op": "create_dir", "at": "", "path": "g", "as": "G"}]
    live = []
    n = 0

    def name(slots):
        # a long name occupying `slots` directory slots (13 units per long-name slot, plus the short entry)
        nonlocal n
        n += 1
        ln = rng.randrange(13 * (slots - 2) + 1, 13 * (slots - 1) + 1) if slots > 1 else 0
        base = ("n%d-" % n + "".join(rng.choice("abcdefghij klmnop\u00e9\u00fc") for _ in range(40)))[:max(ln, 4)].rstrip(" ") + "x"
        return base[:ln] if ln >= 4 else "N%d" % n

    for _ in range(rng.randrange(6, 11)):
        nm = name(rng.choice([1, 2, 2, 3, 3, 4]))
        ops.append({"op": rng.choice(["create_file", "create_file", "create_dir"]), "at": "G", "path": nm})
        live.append(nm)
    for _ in range(rng.randrange(4, 9)):
        if len(live) > 2:
            v = live.pop(rng.randrange(len(live) - 1))          # (never the last one: a gap needs a live neighbour behind it)
            ops.append({"op": "remove", "at": "G", "path": v})
        nm = name(rng.choice([2, 3, 3, 4, 4, 5]))
        if live and rng.random() < 0.3:
            src = live.pop(rng.randrange(len(live)))
            ops.append({"op": "rename", "at": "G", "src": src, "to": "G", "dst": nm})
        else:
            ops.append({"op": "create_file", "at": "G", "path": nm})
        live.append(nm)
        ops.append({"op": "list", "at": "G", "path": ""})
    for nm in live[:4]:
        ops.append({"op": "open_file", "at": "G", "path": nm.upper()})
    ops.append({"op": "unmount"})
    return {"id": pid, "cfg": cfg, "ops": ops, "origin": "names:gaps"}


def stamp_fault_program(rng, pid, cfg):
    """explicit stamps are set, the flush that should store them hits a transient storage error, the flush is repeated (or the handle
    closed): the stamps must be on the medium afterwards"""
    def t():
        return [rng.randrange(1980, 2108), rng.randrange(1, 13), rng.randrange(1, 29), rng.randrange(24), rng.randrange(60), rng.randrange(60), rng.randrange(1000)]
    ops = [{"op": "clock", "t": [2015, 5, 5, 10, 10, 10, 0]},
           {"op": "create_file", "at": "", "path": "stamped.dat", "as": "s"}, {"op": "write_all", "h": "s", "pat": 3, "len": 700}, {"op": "close", "h": "s"},
           {"op": "open_file", "at": "", "path": "stamped.dat", "as": "s"}]
    for kind in rng.sample(["set_created", "set_modified", "set_accessed"], rng.randrange(1, 4)):
        ops.append({"op": kind, "h": "s", "t": t()})
    at = len(ops)
    ops += [{"op": "flush", "h": "s"}, {"op": rng.choice(["flush", "close"]), "h": "s"}, {"op": "list", "at": "", "path": ""}, {"op": "unmount"},
            {"op": "list", "at": "", "path": ""}, {"op": "unmount"}]
    return {"id": pid, "cfg": cfg, "ops": ops, "fault": {"at": at, "k": rng.randrange(1, 5), "continue": True}, "origin": "stamps:fault"}


def flush_fault_io_program(rng, pid, cfg, cs):
    """file contents across a failed flush: data is written (the file grows, or is shortened), the flush that should store the entry hits
    a transient storage error, the flush is repeated or the handle closed; a fresh handle must then read what was written (C02: a file
    behaves as a byte array whatever happened to an earlier, reported, failure)"""
    ops = [{"op": "create_file", "at": "", "path": "other.bin", "as": "o"}, {"op": "write_all", "h": "o", "pat": 9, "len": rng.choice([1, cs, cs + 3])},
           {"op": "create_file", "at": "", "path": "data.bin", "as": "h"}]
    if rng.random() < 0.5:       # the file already has flushed content
        ops += [{"op": "write_all", "h": "h", "pat": 1, "len": rng.choice([5, cs, 2 * cs + 1])}, {"op": "flush", "h": "h"}]
    kind = rng.choice(["grow", "grow", "shrink", "overwrite"])
    if kind == "grow":
        ops += [{"op": "seek", "h": "h", "from": "end", "off": 0}, {"op": "write_all", "h": "h", "pat": 2, "len": rng.choice([1, cs - 1, cs + 1, 2 * cs])}]
    elif kind == "shrink":
        ops += [{"op": "write_all", "h": "h", "pat": 2, "len": cs + 7}, {"op": "seek", "h": "h", "from": "start", "off": rng.choice([0, 3, cs])}, {"op": "truncate", "h": "h"}]
    else:
        ops += [{"op": "write_all", "h": "h", "pat": 2, "len": 9}, {"op": "seek", "h": "h", "from": "start", "off": 2}, {"op": "write_all", "h": "h", "pat": 3, "len": 4}]
    at = len(ops)
    ops += [{"op": "flush", "h": "h"}, {"op": rng.choice(["flush", "close"]), "h": "h"}, {"op": "close", "h": "h"}, {"op": "close", "h": "o"},
            {"op": "open_file", "at": "", "path": "data.bin", "as": "r"}, {"op": "read_all", "h": "r", "len": 3 * cs + 9}, {"op": "seek", "h": "r", "from": "end", "off": 0},
            {"op": "write_all", "h": "r", "pat": 4, "len": 3}, {"op": "seek", "h": "r", "from": "start", "off": 0}, {"op": "read_all", "h": "r", "len": 3 * cs + 20},
            {"op": "close", "h": "r"}, {"op": "unmount"}]
    return {"id": pid, "cfg": cfg, "ops": ops, "fault": {"at": at, "k": rng.randrange(1, 5), "continue": True}, "origin": "io:flush-fault"}


def stamp_full_program(rng, pid, cfg, cs):
    """stamping rules when a write fails: the volume is filled, the clock moves on, a write that needs a new cluster (an empty file, or
    the end of a file whose size is a whole number of clusters) returns the out-of-space error and stores nothing: the modification stamp
    on the medium must stay what it was (only a successful write is stamped)"""
    ops = [{"op": "clock", "t": [2016, 3, 1, 8, 0, 0, 0]},
           {"op": "create_file", "at": "", "path": "whole.bin", "as": "w"}, {"op": "write_all", "h": "w", "pat": 1, "len": rng.choice([cs, 2 * cs])}, {"op": "close", "h": "w"},
           {"op": "create_file", "at": "", "path": "empty.bin", "as": "e"}, {"op": "close", "h": "e"},
           {"op": "create_dir", "at": "", "path": "d"},
           {"op": "clock", "t": [2016, 3, 2, 9, 0, 0, 0]},
           {"op": "create_file", "at": "", "path": "fill.bin", "as": "f"}, {"op": "write_all", "h": "f", "pat": 2, "len": 300 * cs}, {"op": "close", "h": "f"},
           {"op": "clock", "t": [2021, rng.randrange(1, 13), rng.randrange(1, 29), 17, 45, 20, 0]}]
    for v in rng.sample(["whole.bin", "empty.bin"], 2):
        ops += [{"op": "open_file", "at": "", "path": v, "as": "h"}, {"op": "seek", "h": "h", "from": "end", "off": 0},
                {"op": rng.choice(["write", "write_all"]), "h": "h", "pat": 5, "len": rng.choice([1, cs + 1])},
                {"op": rng.choice(["flush", "close"]), "h": "h"}, {"op": "close", "h": "h"}, {"op": "list", "at": "", "path": ""}]
    ops += [{"op": "unmount"}, {"op": "list", "at": "", "path": ""}, {"op": "unmount"}]
    return {"id": pid, "cfg": cfg, "ops": ops, "origin": "stamps:full"}


def unmount_fault_program(rng, pid, cfg, cs):
    """a session allocates and frees clusters; its unmount hits a storage error (one failing device call, or every call from some point
    on: the medium went away), the error is reported; the volume is mounted again: whatever the failed unmount left behind, a mounter
    must not be handed a volume marked clean whose stored free count is wrong (C05: the reported count always equals the table)"""
    ops = [{"op": "stats"}] if rng.random() < 0.5 else []
    for i in range(rng.randrange(1, 4)):
        ops += [{"op": "create_file", "at": "", "path": "u%d.bin" % i, "as": "h%d" % i}, {"op": "write_all", "h": "h%d" % i, "pat": 10 + i, "len": rng.choice([1, cs, 2 * cs + 1, 5 * cs])},
                {"op": "close", "h": "h%d" % i}]
    if rng.random() < 0.4:
        ops.append({"op": "remove", "at": "", "path": "u0.bin"})
    if rng.random() < 0.3:
        ops.append({"op": "stats"})
    at = len(ops)
    ops.append({"op": rng.choice(["unmount", "unmount", "dropfs"])})
    ops += [{"op": "stats"}, {"op": "list", "at": "", "path": ""}, {"op": "create_file", "at": "", "path": "later.bin", "as": "l"}, {"op": "write_all", "h": "l", "pat": 3, "len": cs + 1},
            {"op": "close", "h": "l"}, {"op": "stats"}, {"op": "unmount"}, {"op": "stats"}, {"op": "unmount"}]
    return {"id": pid, "cfg": cfg, "ops": ops, "fault": {"at": at, "k": rng.randrange(1, 14), "sticky": rng.random() < 0.6, "continue": True}, "origin": "unmount-fault"}


def append_fault_program(rng, pid, cfg, cs):
    """a file grows by a cluster and one device call of that write fails (the k-th: the table updates of the allocation are among the
    first); the caller repeats the write, another open file grows, the first is written again.  Whatever the failed call left behind,
    the table must never link a used cluster to a free one (the next allocation would hand that cluster to someone else)"""
    ops = [{"op": "create_file", "at": "", "path": "a.bin", "as": "a"}, {"op": "write_all", "h": "a", "pat": 1, "len": rng.choice([cs, 2 * cs])},
           {"op": "create_file", "at": "", "path": "b.bin", "as": "b"}, {"op": "write_all", "h": "b", "pat": 2, "len": rng.choice([1, cs])}]
    if rng.random() < 0.4:
        ops += [{"op": "create_dir", "at": "", "path": "d"}]
    at = len(ops)
    grow = rng.choice(["file", "file", "dir"])
    if grow == "file":
        ops += [{"op": "write_all", "h": "a", "pat": 3, "len": cs}, {"op": "write_all", "h": "a", "pat": 3, "len": cs}]
    else:
        ops += [{"op": "create_dir", "at": "", "path": "grown"}, {"op": "create_dir", "at": "", "path": "grown"}]
    ops += [{"op": "write_all", "h": "b", "pat": 4, "len": 2 * cs}, {"op": "write_all", "h": "a", "pat": 5, "len": cs + 1}, {"op": "flush", "h": "a"}, {"op": "flush", "h": "b"},
            {"op": "close", "h": "a"}, {"op": "close", "h": "b"}, {"op": "open_file", "at": "", "path": "a.bin", "as": "ra"}, {"op": "read_all", "h": "ra", "len": 6 * cs},
            {"op": "open_file", "at": "", "path": "b.bin", "as": "rb"}, {"op": "read_all", "h": "rb", "len": 6 * cs}, {"op": "unmount"}]
    return {"id": pid, "cfg": cfg, "ops": ops, "fault": {"at": at, "k": rng.randrange(1, 14), "continue": True}, "origin": "append-fault"}


def atime_seek_program(rng, pid, cfg, cs):
    """access-date updating on: a read stamps today's date wherever in the file it takes place (after a seek, in the middle of a handle's
    life, on a handle that stays open over midnight), from the configured clock"""
    cfg = dict(cfg, atime=True)
    ops = [{"op": "clock", "t": [2020, 1, 1, 10, 0, 0, 0]},
           {"op": "create_file", "at": "", "path": "log.bin", "as": "w"}, {"op": "write_all", "h": "w", "pat": 6, "len": 3 * cs + 9}, {"op": "close", "h": "w"},
           {"op": "clock", "t": [2020, 1, 2, 10, 0, 0, 0]},
           {"op": "open_file", "at": "", "path": "log.bin", "as": "a"}, {"op": "read", "h": "a", "len": 7}, {"op": "close", "h": "a"}, {"op": "list", "at": "", "path": ""},
           {"op": "clock", "t": [2020, 1, 3, 23, 59, 58, 0]},
           {"op": "open_file", "at": "", "path": "log.bin", "as": "b"}, {"op": "seek", "h": "b", "from": "start", "off": rng.choice([1, cs - 1, cs, cs + 5, 2 * cs])},
           {"op": "read", "h": "b", "len": rng.choice([1, 10, cs])}, {"op": rng.choice(["flush", "close"]), "h": "b"}, {"op": "list", "at": "", "path": ""},
           {"op": "clock", "t": [2020, rng.randrange(2, 13), rng.randrange(1, 29), 0, 0, 1, 0]},
           {"op": "read", "h": "b", "len": 3}, {"op": "close", "h": "b"}, {"op": "list", "at": "", "path": ""},
           {"op": "unmount"}, {"op": "list", "at": "", "path": ""}, {"op": "unmount"}]
    return {"id": pid, "cfg": cfg, "ops": ops, "origin": "stamps:atime-seek"}


def stale_dir_program(rng, pid, cs):
    """directories on clusters of several sectors that hold old data (a medium used before it was formatted, or clusters of a removed
    file): a directory shows exactly the entries created in it, however many sectors of its clusters they reach, and can be removed
    once they are gone"""
    spc = cs // 512
    vol = fmt((40 + 60 * spc) * 512, bpc=cs, fats=rng.choice([1, 2]), root=rng.choice([16, 32]), prefill=rng.choice([0xD1, 0xFF, 0x41, 0xE5]))
    ops = []
    if rng.random() < 0.5:      # old data from a removed file instead of (in addition to) the medium
        ops += [{"op": "create_file", "at": "", "path": "big.bin", "as": "b"}, {"op": "write_all", "h": "b", "pat": 9, "len": 300 * cs}, {"op": "close", "h": "b"},
                {"op": "remove", "at": "", "path": "big.bin"}, {"op": "unmount"}]
    ops.append({"op": "create_dir", "at": "", "path": "d"})
    n = rng.randrange(6, 6 + 16 * spc // 3 + 4)
    for i in range(n):
        ops.append({"op": rng.choice(["create_file", "create_file", "create_dir"]), "at": "", "path": "d/entry number %d.txt" % i})
        if i % 5 == 4:
            ops.append({"op": "list", "at": "", "path": "d"})
    ops += [{"op": "list", "at": "", "path": "d"}, {"op": "create_dir", "at": "", "path": "d/sub"}, {"op": "list", "at": "", "path": "d/sub"}, {"op": "remove", "at": "", "path": "d/sub"}]
    for i in range(n):
        ops.append({"op": "remove", "at": "", "path": "d/entry number %d.txt" % i})
    ops += [{"op": "list", "at": "", "path": "d"}, {"op": "remove", "at": "", "path": "d"}, {"op": "list", "at": "", "path": ""}, {"op": "unmount"}]
    return {"id": pid, "cfg": {"vol": vol}, "ops": ops, "origin": "ns:stale-dir"}


def fault_wrap_program(pid, cfg, cs):
    """a second fixed history for C09: the tail of a small volume is full, clusters in front of the next-free hint are free, so an
    allocation runs its search to the end of the table, wraps around and searches the beginning; plus a status query in mid-session"""
    ops = [{"op": "create_file", "at": "", "path": "a.bin", "as": "a"}, {"op": "write_all", "h": "a", "pat": 1, "len": 2 * cs}, {"op": "close", "h": "a"},
           {"op": "create_file", "at": "", "path": "fill.bin", "as": "f"}, {"op": "write_all", "h": "f", "pat": 2, "len": 400 * cs}, {"op": "close", "h": "f"},
           {"op": "remove", "at": "", "path": "a.bin"},
           {"op": "create_file", "at": "", "path": "f.bin", "as": "g"}, {"op": "write_all", "h": "g", "pat": 3, "len": cs}, {"op": "close", "h": "g"},
           {"op": "remove", "at": "", "path": "f.bin"},
           {"op": "create_file", "at": "", "path": "g.bin", "as": "h"}, {"op": "write_all", "h": "h", "pat": 4, "len": 2 * cs}, {"op": "status"}, {"op": "close", "h": "h"},
           {"op": "create_dir", "at": "", "path": "late dir"}, {"op": "stats"}, {"op": "unmount"}]
    return {"id": pid, "cfg": cfg, "ops": ops, "origin": "fixed:fault-wrap"}


def root_tail_program(rng, pid):
    """a fixed root directory whose last sector is only partly the root's (40 entries of 32 bytes = 2.5 sectors): a file in the first data
    clusters stays what was written while the root fills up to its last entry, and the root's last entries stay what they are while the
    file is rewritten"""
    geo = rng.choice(["K2", "s1024", "s4096"])
    if geo == "K2":
        cfg, cs, nroot = K("K2"), 1024, 40
    elif geo == "s1024":      # 112 entries of 32 bytes = 3.5 sectors of 1024 bytes
        cfg, cs, nroot = {"vol": fmt(2 << 20, bps=1024, bpc=1024, fats=2, root=112, ft=12)}, 1024, 112
    else:                     # 224 entries = 1.75 sectors of 4096 bytes
        cfg, cs, nroot = {"vol": fmt(12 << 20, bps=4096, bpc=4096, fats=1, root=224, ft=12)}, 4096, 224
    # (the file begins with zeros: bytes that, read as directory slots, say "free from here on")
    ops = [{"op": "create_file", "at": "", "path": "BIG.BIN", "as": "b"}, {"op": "write_all", "h": "b", "data": [0] * cs}, {"op": "write_all", "h": "b", "pat": 5, "len": cs + 7},
           {"op": "flush", "h": "b"}]
    for i in range(nroot // 2 - 1):
        ops.append({"op": "create_file", "at": "", "path": "S%02d.TXT" % i})
        if i % 8 == 7 or i >= nroot // 2 - 6:
            ops += [{"op": "seek", "h": "b", "from": "start", "off": 0}, {"op": "read_all", "h": "b", "len": 3 * cs}]
    ops += [{"op": "seek", "h": "b", "from": "start", "off": rng.choice([0, 5, 512])}, {"op": "write_all", "h": "b", "pat": 6, "len": cs}, {"op": "flush", "h": "b"},
            {"op": "list", "at": "", "path": ""}, {"op": "close", "h": "b"}, {"op": "unmount"}, {"op": "list", "at": "", "path": ""},
            {"op": "open_file", "at": "", "path": "BIG.BIN", "as": "r"}, {"op": "read_all", "h": "r", "len": 3 * cs}, {"op": "close", "h": "r"}, {"op": "unmount"}]
    # (the listings are not observed here: what the file handle reads is the subject, C01 / C04 judge the tree in their own campaigns)
    return {"id": pid, "cfg": dict(cfg, obs={"raw": True, "rv": False, "sv": False}), "ops": ops, "origin": "io:root-tail"}


def clone_flush_program(rng, pid, cfg, cs):
    """a handle writes and is flushed (nothing pending any more), is cloned, the clone changes the file (appends across a cluster boundary or
    empties it) and is closed, then the first handle is closed: a handle with nothing pending writes nothing back, the entry keeps what the
    clone stored"""
    ops = [{"op": "create_file", "at": "", "path": "shared.bin", "as": "a"}, {"op": "write_all", "h": "a", "pat": 1, "len": rng.choice([100, cs, cs + 9])},
           {"op": "flush", "h": "a"}]
    if rng.random() < 0.5:
        ops.append({"op": "flush", "h": "a"})
    ops.append({"op": "clone", "h": "a", "as": "b"})
    if rng.random() < 0.6:
        ops += [{"op": "seek", "h": "b", "from": "end", "off": 0}, {"op": "write_all", "h": "b", "pat": 2, "len": rng.choice([cs, 3 * cs + 1])}]
    else:
        ops += [{"op": "seek", "h": "b", "from": "start", "off": rng.choice([0, 0, 7])}, {"op": "truncate", "h": "b"}]
    ops += [{"op": rng.choice(["close", "flush"]), "h": "b"}, {"op": "close", "h": "b"}, {"op": "close", "h": "a"}, {"op": "list", "at": "", "path": ""},
            {"op": "open_file", "at": "", "path": "shared.bin", "as": "r"}, {"op": "read_all", "h": "r", "len": 5 * cs}, {"op": "close", "h": "r"}, {"op": "unmount"}]
    return {"id": pid, "cfg": cfg, "ops": ops, "origin": "io:clone-flush"}


def patch_header_crash_program(rng, pid, cfg, cs):
    """the body of a file is written, then the program seeks back and patches a header (the last write before the flush does not grow the
    file), under a clock that stands still or moves: what was flushed survives every later crash point"""
    ops = []
    if rng.random() < 0.7:
        ops.append({"op": "clock", "t": [2020, 6, 15, 12, 30, rng.choice([30, 31]), 0]})
    ops += [{"op": "create_file", "at": "", "path": "doc.bin", "as": "d"}, {"op": "write_all", "h": "d", "pat": 7, "len": rng.choice([14, cs + 8, 3 * cs + 8])},
            {"op": "seek", "h": "d", "from": "start", "off": rng.choice([0, 2])}, {"op": "write_all", "h": "d", "pat": 8, "len": rng.choice([1, 12])},
            {"op": rng.choice(["flush", "close"]), "h": "d"}]
    for j in range(rng.randrange(2, 6)):
        ops += [{"op": "create_file", "at": "", "path": "n%d.tmp" % j, "as": "n%d" % j}, {"op": "write_all", "h": "n%d" % j, "pat": j, "len": rng.choice([3, cs])},
                {"op": "close", "h": "n%d" % j}]
    ops += [{"op": "create_dir", "at": "", "path": "later"}, {"op": "unmount"}]
    return {"id": pid, "cfg": dict(cfg, wlog=True), "ops": ops, "crash": {"stride": 1}, "origin": "crash:patch-header"}


def intr_write_programs(tag, cfg, cs):
    """one program per device call k of a multi-cluster write_all that starts on a cluster boundary: that call is interrupted once
    (EINTR-like); where the looping caller repeats the piece the write succeeds, and then nothing may be lost, shifted or written twice:
    the flushed file survives every later crash point with exactly its content"""
    out = []
    for k in range(1, 31):
        ops = [{"op": "create_file", "at": "", "path": "a.bin", "as": "a"}, {"op": "write_all", "h": "a", "pat": 3, "len": cs},
               {"op": "write_all", "h": "a", "pat": 4, "len": 2 * cs + 5}, {"op": "flush", "h": "a"},
               {"op": "create_file", "at": "", "path": "other.bin", "as": "o"}, {"op": "write_all", "h": "o", "pat": 5, "len": cs + 1}, {"op": "close", "h": "o"},
               {"op": "close", "h": "a"}, {"op": "open_file", "at": "", "path": "a.bin", "as": "r"}, {"op": "read_all", "h": "r", "len": 4 * cs},
               {"op": "close", "h": "r"}, {"op": "unmount"}]
        out.append({"id": "%s-%d" % (tag, k), "cfg": dict(cfg, wlog=True), "ops": ops, "crash": {"stride": 1},
                    "fault": {"at": 2, "k": k, "intr": True, "continue": True}, "origin": "crash:intr-write"})
    return out


def with_remounts(prog, rng, k=2):
    """insert k session ends (unmount / dropfs) at random positions: handles still open are closed by the executor"""
    ops = list(prog["ops"])
    for _ in range(k):
        if len(ops) > 6:
            ops.insert(rng.randrange(3, len(ops) - 1), {"op": rng.choice(["unmount", "dropfs"])})
    return dict(prog, ops=ops, id=prog["id"] + "-rm")


def first_mutation_program(rng, pid, cfg, cs, end="unmount"):
    """session 1 populates; then one session per mutation kind in which that mutation is the FIRST change after a clean mount
    (C12: every mutating path must set the dirty bit by itself; C05: a session that only frees must still persist the count)"""
    ops = [{"op": "create_dir", "at": "", "path": "d"}, {"op": "create_dir", "at": "", "path": "empty"}]
    sizes = {"a.bin": 2 * cs + cs // 2, "b.bin": cs, "c.bin": 3 * cs, "d/e.bin": cs + 7, "zero.bin": 0, "t1.bin": 2 * cs + 10, "t2.bin": 2 * cs + 10,
             "t3.bin": cs + 100, "r1.bin": 5, "r2.bin": cs + 1, "x1.bin": 2 * cs, "x2.bin": 10}
    for i, (nm, sz) in enumerate(sizes.items()):
        ops.append({"op": "create_file", "at": "", "path": nm, "as": "p%d" % i})
        if sz:
            ops.append({"op": "write_all", "h": "p%d" % i, "pat": i + 1, "len": sz})
        ops.append({"op": "close", "h": "p%d" % i})
    ops.append({"op": "unmount"})
    muts = [
        [("open_file", "t1.bin"), ("seek", "start", 2 * cs + 3), ("truncate",)],          # truncate inside the last cluster: no cluster freed
        [("open_file", "t2.bin"), ("seek", "start", cs), ("truncate",)],                   # truncate at a cluster boundary
        [("open_file", "t3.bin"), ("seek", "start", 0), ("truncate",)],                    # truncate to nothing
        [("open_file", "a.bin"), ("seek", "start", 5), ("write", 7)],                      # overwrite in place
        [("open_file", "b.bin"), ("seek", "end", 0), ("write", 3)],                        # append needing a new cluster (file ends on a boundary)
        [("open_file", "d/e.bin"), ("seek", "end", 0), ("write", 3)],                      # append inside the last cluster
        [("open_file", "zero.bin"), ("write", 1)],                                         # first cluster of an empty file
        [("open_file", "c.bin"), ("set_modified",)],                                       # timestamps only
        [("create_file", "new.txt")], [("create_dir", "newdir")], [("create_file", "d/new long file name.txt")],
        [("remove", "r1.bin")], [("remove", "r2.bin")], [("remove", "empty")],
        [("rename", "x1.bin", "x1 renamed.bin")], [("rename", "x2.bin", "d/x2.bin")],
    ]
    rng.shuffle(muts)
    n = 0
    for m in muts:
        n += 1
        h = "m%d" % n
        # a read-only prelude, so that the mutation is really the first change of the session
        ops.append({"op": "list", "at": "", "path": ""})
        if rng.random() < 0.5:
            ops.append({"op": "stats"})
        for step in m:
            if step[0] == "open_file":
                ops.append({"op": "open_file", "at": "", "path": step[1], "as": h})
            elif step[0] == "seek":
                ops.append({"op": "seek", "h": h, "from": step[1], "off": step[2]})
            elif step[0] == "truncate":
                ops.append({"op": "truncate", "h": h})
            elif step[0] == "write":
                ops.append({"op": "write_all", "h": h, "pat": n, "len": step[1]})
            elif step[0] == "set_modified":
                ops.append({"op": "set_modified", "h": h, "t": [2001, 2, 3, 4, 5, 6, 0]})
            elif step[0] in ("create_file", "create_dir"):
                ops.append({"op": step[0], "at": "", "path": step[1]})
            elif step[0] == "remove":
                ops.append({"op": "remove", "at": "", "path": step[1]})
            elif step[0] == "rename":
                ops.append({"op": "rename", "at": "", "src": step[1], "to": "", "dst": step[2]})
        if m[0][0] == "open_file":
            ops.append({"op": rng.choice(["flush", "close"]), "h": h})
        ops.append({"op": "stats"} if rng.random() < 0.3 else {"op": "status"})
        ops.append({"op": rng.choice([end, "unmount", "dropfs"])})
    ops.append({"op": "stats"})
    ops.append({"op": "unmount"})
    return {"id": pid, "cfg": cfg, "ops": ops, "origin": "first-mutation"}


def top_clusters_volume(rng, ft):
    """the largest volume of a table width (FAT12: 4084 clusters, FAT16: 65524) in which only a few clusters at the start and the
    last dozen are free: files written now live in the highest cluster numbers of that width (0xFF0.., 0xFFF0..)"""
    bps = 512
    n = {12: 4084, 16: 65524}[ft]
    head, tail_free = rng.randrange(1, 4), rng.randrange(8, 14)
    vol = {"kind": "builder", "ft": ft, "bps": bps, "spc": 1, "n": n, "nfats": rng.choice([1, 2]), "pad": rng.choice(["zero", "eoc"]), "tail": 4096, "rootn": 64,
           "bad": [[3 + head, n + 1 - tail_free]],
           "tree": [{"kind": "f", "name": "seed.txt", "sfn": "SEED    TXT", "size": 10, "pat": 2}]}
    return vol, bps


def nearly_full_volume(rng, ft):
    """builder volume of the smallest size of its width in which a long BAD range leaves only a handful of clusters free (some at the
    start, some at the very end of the table): out-of-space is reached within a few calls on FAT16 and FAT32 too, after a scan for a
    free cluster that runs through the whole table"""
    bps = 512
    n = {12: rng.randrange(40, 90), 16: 4085 + rng.randrange(0, 30), 32: 65525 + rng.randrange(0, 30)}[ft]
    head, tail_free = rng.randrange(6, 12), rng.randrange(0, 5)
    vol = {"kind": "builder", "ft": ft, "bps": bps, "spc": 1, "n": n, "nfats": rng.choice([1, 2]), "pad": rng.choice(["zero", "eoc"]), "tail": 4096, "rootn": 64,
           "bad": [[2 + head, n + 1 - tail_free]],
           "tree": [{"kind": "f", "name": "seed.txt", "sfn": "SEED    TXT", "size": 600, "pat": 2}]}
    if ft == 32:
        vol["rsvd"] = 32
        vol["fsinfo"] = {"free": rng.choice(["exact", "unknown"]), "next": rng.choice(["unknown", 2, n])}
    return vol, bps


def end_of_table_volume(rng, ft):
    """builder volume whose scan from the next-free hint runs into the end of the table: the last clusters are used (BAD), the hint
    points at them, and the entries behind the last cluster look free (zero), as foreign formatters leave them"""
    bps = 512
    n = {12: rng.randrange(30, 80), 16: 4085 + rng.randrange(0, 40), 32: 65525 + rng.randrange(0, 40)}[ft]
    k = rng.randrange(1, 4)
    vol = {"kind": "builder", "ft": ft, "bps": bps, "spc": 1, "n": n, "nfats": rng.choice([1, 2]), "pad": "zero", "extra_fat_sectors": rng.choice([0, 1]),
           "bad": [[n + 2 - k, n + 1]], "tail": 4096, "rootn": 32,
           "tree": [{"kind": "f", "name": "seed.txt", "sfn": "SEED    TXT", "size": 600, "pat": 2}]}
    if ft == 32:
        vol["rsvd"] = 32
        vol["fsinfo"] = {"free": "exact", "next": rng.choice([n + 1, n + 2 - k, n, n + 1 - k])}
    return vol, bps
