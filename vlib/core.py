"""Orchestration core: build the harness from /repo's working tree, run programs through it,
judge the recorded traces with TLC, collect verdicts and write evidence."""
import fcntl
import hashlib
import json
import zlib
import os
import re
import shutil
import subprocess
import sys
import time
from concurrent.futures import ThreadPoolExecutor

ROOT = os.path.dirname(os.path.dirname(os.path.abspath(__file__)))
WORK = os.path.join(ROOT, "work")
SPEC = os.path.join(ROOT, "spec")
HARNESS = os.path.join(ROOT, "harness")
EVID = os.path.join(ROOT, "evidence")
REPLAYS = os.path.join(ROOT, "replays")
NCPU = os.cpu_count() or 4


class ToolError(Exception):
    pass


def log(*a):
    print(*a, file=sys.stderr, flush=True)


def seed():
    try:
        return int(os.environ.get("VERIF_SEED", "1"))
    except ValueError:
        return 1


def tier(default="quick"):
    t = os.environ.get("VERIF_TIER", default)
    return t if t in ("quick", "thorough") else default


# ------------------------------------------------------------------------------------------------
# build

_built = {}


def build(feat="ref"):
    """cargo build of the harness against /repo's current working tree; returns the binary path"""
    if feat in _built:
        return _built[feat]
    os.makedirs(WORK, exist_ok=True)
    lock = open(os.path.join(WORK, ".build.lock"), "w")
    fcntl.flock(lock, fcntl.LOCK_EX)
    try:
        tdir = "target-" + feat
        cmd = ["cargo", "build", "--release", "--offline", "--no-default-features", "--features", feat]
        env = dict(os.environ, CARGO_TARGET_DIR=tdir, CARGO_NET_OFFLINE="true")
        t0 = time.time()
        p = subprocess.run(cmd, cwd=HARNESS, env=env, stdout=subprocess.PIPE, stderr=subprocess.STDOUT, text=True)
        if p.returncode != 0:
            log(p.stdout[-4000:])
            raise ToolError("harness build failed (feature set %s)" % feat)
        log("[build] %s in %.1fs" % (feat, time.time() - t0))
        binp = os.path.join(HARNESS, tdir, "release", "fxh")
        if feat == "ref":
            fold = os.path.join(WORK, "fold.json")
            out = subprocess.run([binp, "foldtable"], stdout=subprocess.PIPE, check=True).stdout
            with open(fold, "wb") as f:
                f.write(out)
        _built[feat] = binp
        return binp
    finally:
        fcntl.flock(lock, fcntl.LOCK_UN)
        lock.close()


# ------------------------------------------------------------------------------------------------
# running programs and TLC

TLC_CP = "/opt/veriftools/tla/tla2tools.jar:/opt/veriftools/tla/CommunityModules-deps.jar"


def run_harness(binp, prog_file, ev_file, timeout=3000, mode="run"):
    t0 = time.time()
    p = subprocess.run([binp, mode, prog_file, ev_file], stdout=subprocess.PIPE, stderr=subprocess.PIPE, text=True, timeout=timeout)
    if p.returncode != 0:
        raise ToolError("harness failed on %s: rc=%s %s" % (prog_file, p.returncode, p.stderr[-2000:]))
    try:
        info = json.loads(p.stdout.strip().splitlines()[-1])
    except Exception:
        raise ToolError("harness output unreadable: %r" % p.stdout[-500:])
    info["wall"] = time.time() - t0
    return info


MAX_TRACE_BYTES = 48 << 20

LINE_RE = re.compile(r'^<<"(VIOL|DEV|NOTE|INFO)", (.*)>>$')


def parse_tuple_fields(body):
    # fields are strings or integers, comma separated; strings have no embedded quotes
    out = []
    for m in re.finditer(r'"([^"]*)"|(-?\d+)', body):
        out.append(m.group(1) if m.group(1) is not None else int(m.group(2)))
    return out


def run_tlc(spec, cfg, env_extra, workdir, tag, xmx="3g", timeout=3600, workers=1, extra_args=()):
    """run TLC on spec with cfg; returns dict(lines=[(kind, fields)], ok, states, distinct, out)"""
    md = os.path.join(workdir, "md-" + tag)
    tmp = os.path.join(workdir, "tmp-" + tag)
    shutil.rmtree(md, ignore_errors=True)
    os.makedirs(tmp, exist_ok=True)
    env = dict(os.environ)
    env.update(env_extra)
    env["JAVA_TOOL_OPTIONS"] = "-Xss1g -Dtlc2.tool.queue.IStateQueue=StateDeque -Djava.io.tmpdir=%s" % tmp
    cmd = ["java", "-XX:+UseParallelGC", "-XX:ParallelGCThreads=2", "-Xms1g", "-Xmx" + xmx, "-cp", TLC_CP, "tlc2.TLC", "-workers", str(workers), "-metadir", md,
           "-cleanup", "-noGenerateSpecTE", "-config", cfg] + list(extra_args) + [spec]
    t0 = time.time()
    try:
        p = subprocess.run(cmd, cwd=SPEC, env=env, stdout=subprocess.PIPE, stderr=subprocess.STDOUT, text=True, timeout=timeout)
    except subprocess.TimeoutExpired:
        raise ToolError("TLC timed out on %s (%s)" % (spec, tag))
    finally:
        shutil.rmtree(tmp, ignore_errors=True)
    shutil.rmtree(md, ignore_errors=True)
    out = p.stdout
    lines = []
    for ln in out.splitlines():
        m = LINE_RE.match(ln.strip())
        if m:
            lines.append((m.group(1), parse_tuple_fields(m.group(2))))
    ok = "Model checking completed. No error has been found." in out
    states = distinct = 0
    m = re.search(r"(\d+) states generated, (\d+) distinct states found", out)
    if m:
        states, distinct = int(m.group(1)), int(m.group(2))
    return dict(lines=lines, ok=ok, states=states, distinct=distinct, out=out, wall=time.time() - t0, rc=p.returncode)


def shard(items, n):
    n = max(1, min(n, len(items)))
    out = [[] for _ in range(n)]
    for i, it in enumerate(items):
        out[i % n].append(it)
    return [s for s in out if s]


class CampaignResult:
    def __init__(self):
        self.programs = 0
        self.events = 0
        self.viol = []  # (tag, pid, i, op)
        self.dev = []
        self.notes = []
        self.infos = []
        self.tlc_states = 0
        self.tlc_distinct = 0
        self.wall_harness = 0.0
        self.wall_tlc = 0.0
        self.progs = {}  # pid -> program
        self.samples = []
        self.shapes = set()
        self.tool_errors = []
        self.bytes = 0


def campaign(name, programs, workdir, feat="ref", spec="TraceFatFs", n_shards=None, jvms=None, keep_events=False, mode="run"):
    """run programs through the harness and validate the traces with TLC"""
    os.makedirs(workdir, exist_ok=True)
    binp = build(feat)
    build("ref")  # fold table
    res = CampaignResult()
    res.programs = len(programs)
    for p in programs:
        res.progs[str(p["id"])] = p
    if not programs:
        return res
    if n_shards is None:
        n_shards = max(1, min(12, len(programs) // 8 + 1))
    shards = shard(programs, n_shards)
    files = []
    for k, sh in enumerate(shards):
        pf = os.path.join(workdir, "%s-p%02d.ndjson" % (name, k))
        ef = os.path.join(workdir, "%s-e%02d.ndjson" % (name, k))
        with open(pf, "w") as f:
            for p in sh:
                if mode == "run" and isinstance(p.get("cfg"), dict) and "optord" not in p["cfg"]:
                    # the order of the FsOptions builder calls is free: every program fixes one, derived from its name
                    p = dict(p, cfg=dict(p["cfg"], optord=zlib.crc32(str(p.get("id")).encode()) % 5))
                f.write(json.dumps(p, separators=(",", ":")) + "\n")
        files.append((k, pf, ef))
    t0 = time.time()
    with ThreadPoolExecutor(max_workers=min(len(files), max(1, NCPU - 2))) as ex:
        infos = list(ex.map(lambda f: run_harness(binp, f[1], f[2], mode=mode), files))
    res.wall_harness = time.time() - t0
    res.events = sum(i["events"] for i in infos)
    # shapes and samples, measured from the recorded events
    for k, pf, ef in files:
        res.bytes += os.path.getsize(ef)
        with open(ef) as f:
            for n, ln in enumerate(f):
                # cheap field extraction without parsing the whole line
                m = re.search(r'"name":"([a-z_]+)"', ln) if mode == "faults" else re.search(r'"op":"([a-z_]+)"', ln)
                r = re.search(r'"r":\{[^}]*?"k":"([a-z]+)"', ln)
                e = re.search(r'"r":\{[^}]*?"e":"([A-Za-z]+)"', ln)
                if m:
                    fk = re.search(r'"flt":\{"drop":(true|false),"kind":"([a-z]+)"', ln) if mode == "faults" else None
                    res.shapes.add((m.group(1), r.group(1) if r else "", e.group(1) if e else "") + ((fk.group(1), fk.group(2)) if fk else ()))
                if k == 0 and n < 40 and len(res.samples) < 3 and m and m.group(1) not in ("begin", "mount", "end"):
                    try:
                        ev = json.loads(ln)
                        res.samples.append({k2: _trim(v2) for k2, v2 in ev.items() if k2 in ("pid", "i", "op", "a", "r", "name", "k", "of", "flt", "t", "req", "res")})
                    except Exception:
                        pass
    fold = "ascii" if feat == "nounicode" else "unicode"
    t0 = time.time()
    # a trace file is deserialised as a whole by TLC: keep the pieces small (cut only where a program begins)
    stateless = spec in ("TraceMount", "TraceFormat", "TraceDirDecode", "TraceFault")      # (every event is judged on its own)
    if spec in ("TraceFatFs", "TraceB") or stateless:
        pieces = []
        for k, pf, ef in files:
            if os.path.getsize(ef) <= MAX_TRACE_BYTES:
                pieces.append((k, pf, ef))
                continue
            part, size, out = 0, 0, None
            with open(ef) as f:
                for ln in f:
                    if out is None or (size > MAX_TRACE_BYTES and (stateless or '"op":"begin"' in ln)):
                        if out:
                            out.close()
                        part += 1
                        pn = ef[:-7] + ".%02d.ndjson" % part
                        out = open(pn, "w")
                        pieces.append(((k + 1) * 1000 + part, pf, pn))       # (distinct from every unsplit shard number)
                        size = 0
                    out.write(ln)
                    size += len(ln)
            if out:
                out.close()
            os.remove(ef)
        files = pieces

    def one(f):
        k, pf, ef = f
        env = {"TRACE": ef, "FOLD": fold, "FOLDTAB": os.path.join(WORK, "fold.json")}
        return run_tlc(os.path.join(SPEC, spec + ".tla"), os.path.join(SPEC, spec + ".cfg"), env, workdir, "%s-%02d" % (name, k))

    with ThreadPoolExecutor(max_workers=jvms or min(len(files), 8)) as ex:
        outs = list(ex.map(one, files))
    res.wall_tlc = time.time() - t0
    for (k, pf, ef), o in zip(files, outs):
        res.tlc_states += o["states"]
        res.tlc_distinct += o["distinct"]
        if not o["ok"]:
            tail = "\n".join(l for l in o["out"].splitlines() if not re.match(r"^(Parsing|Semantic|Linting|Picked up)", l))[-3000:]
            res.tool_errors.append("TLC did not accept/finish shard %s of %s:\n%s" % (k, name, tail))
        for kind, f in o["lines"]:
            if kind == "VIOL":
                res.viol.append(tuple(f))
            elif kind == "DEV":
                res.dev.append(tuple(f))
            elif kind == "NOTE":
                res.notes.append(tuple(f))
            elif kind == "INFO":
                res.infos.append(tuple(f))
        if not keep_events:
            try:
                os.remove(ef)
            except OSError:
                pass
    return res


def _trim(r):
    if isinstance(r, dict):
        return {k: (v if not isinstance(v, list) or len(v) <= 12 else v[:12] + ["..."]) for k, v in r.items() if k not in ("ents",)}
    return r


# ------------------------------------------------------------------------------------------------
# known findings, verdicts, evidence

def known_findings():
    p = os.path.join(ROOT, "known_findings.json")
    if not os.path.exists(p):
        return {"open": [], "fixed": []}
    with open(p) as f:
        return json.load(f)


def write_replay(prop, prog, what):
    os.makedirs(REPLAYS, exist_ok=True)
    h = hashlib.sha1(json.dumps(prog, sort_keys=True).encode()).hexdigest()[:10]
    path = os.path.join(REPLAYS, "%s-%s.json" % (prop, h))
    with open(path, "w") as f:
        json.dump({"property": prop, "what": what, "program": prog}, f, indent=1)
    return path


def write_evidence(prop, level, coverage, wall, violations, assumptions=None):
    os.makedirs(EVID, exist_ok=True)
    ev = {
        "property_id": prop,
        "tier": tier(),
        "seed": seed(),
        "level": level,
        "coverage": coverage,
        "assumptions": assumptions or [],
        "wall_s": round(wall, 2),
        "violations": violations,
    }
    with open(os.path.join(EVID, prop + ".json"), "w") as f:
        json.dump(ev, f, indent=1)


def verdict(prop, results, extra_prefixes=("C00.",)):
    """results: list of (campaign name, CampaignResult).  Prints VIOLATION / KNOWN-FINDING lines.
    Returns (n_violations, summary dict)."""
    kf = known_findings()
    open_ids = {k["id"]: k for k in kf.get("open", []) if k.get("property") == prop}
    nviol = 0
    seen = set()
    known_seen = {}
    others = {}
    tool_errors = []
    for cname, r in results:
        tool_errors += r.tool_errors
        for t in r.viol:
            tag, pid = t[0], str(t[1])
            mine = tag.startswith(prop + ".") or any(tag.startswith(x) for x in extra_prefixes)
            if not mine:
                others[tag] = others.get(tag, 0) + 1
                continue
            key = (tag, pid)
            if key in seen:
                continue
            seen.add(key)
            prog = r.progs.get(pid, {"id": pid})
            if nviol < 20:
                path = write_replay(prop, prog, {"tag": tag, "event": t[2] if len(t) > 2 else None, "op": t[3] if len(t) > 3 else None, "campaign": cname})
                print("VIOLATION property=%s replay=%s  (%s at event %s of program %s)" % (prop, path, tag, t[2] if len(t) > 2 else "?", pid))
            nviol += 1
        for t in r.dev:
            did, pid = t[0], str(t[1])
            if did in open_ids:
                known_seen[did] = known_seen.get(did, 0) + 1
            else:
                # deviation ids owned by another property are that property's business
                owner = [k for k in kf.get("open", []) if k["id"] == did]
                if owner:
                    continue
                key = ("DEV:" + did, pid)
                if key in seen:
                    continue
                seen.add(key)
                prog = r.progs.get(pid, {"id": pid})
                path = write_replay(prop, prog, {"deviation": did, "event": t[2] if len(t) > 2 else None})
                print("VIOLATION property=%s replay=%s  (unlisted deviation %s)" % (prop, path, did))
                nviol += 1
    for did, n in sorted(known_seen.items()):
        print("KNOWN-FINDING: property=%s %s %s (seen %d times in this run)" % (prop, did, open_ids[did]["what"], n))
    if others:
        log("[info] clauses of other properties false in this run (reported by their own checks): %s" % others)
    return nviol, dict(known=known_seen, others=others, tool_errors=tool_errors)


def finish(prop, level, results, mc, t0, rule, assumptions, extra_cov=None, extra_prefixes=("C00.",)):
    """common tail of a check: verdict, evidence, exit code"""
    nviol, info = verdict(prop, results, extra_prefixes)
    programs = sum(r.programs for _, r in results)
    events = sum(r.events for _, r in results)
    shapes = set()
    samples = []
    for _, r in results:
        shapes |= r.shapes
        samples += r.samples[:2]
    cov = {
        "states": max(1, (mc or {}).get("distinct", 0)) if mc else sum(r.tlc_distinct for _, r in results),
        "transitions": max(1, (mc or {}).get("states", 0)) if mc else sum(r.tlc_states for _, r in results),
        "traces_validated_against_impl": programs,
        "samples": samples[:6] or [{"note": "no sample recorded"}],
        "evaluations": events,
        "distinct_nontrivial": len(shapes),
        "rule": rule,
        "trace_events": events,
        "trace_states_checked_by_tlc": sum(r.tlc_distinct for _, r in results),
        "campaigns": {n: {"programs": r.programs, "events": r.events, "harness_s": round(r.wall_harness, 1), "tlc_s": round(r.wall_tlc, 1),
                          "trace_mb": round(r.bytes / 1e6, 1)} for n, r in results},
        "known_findings_seen": info["known"],
        "other_property_clauses_false": info["others"],
        "notes": sorted({"%s:%s" % (t[0], t[3] if len(t) > 3 else "") for _, r in results for t in r.notes})[:20],
    }
    if mc:
        cov["model_checking"] = mc
    if extra_cov:
        cov.update(extra_cov)
    write_evidence(prop, level, cov, time.time() - t0, nviol, assumptions)
    if info["tool_errors"]:
        for e in info["tool_errors"][:3]:
            log("[tool error] " + e)
        if nviol == 0:
            sys.exit(2)
    sys.exit(1 if nviol else 0)


# ------------------------------------------------------------------------------------------------
# C19: the same programs through two builds, events zipped and compared by TLC (TraceFeature)

_STRIP_ENTRY = ("fn", "sfn")


def _strip(ev):
    keep = {}
    # (device-call counts are not part of the property: only results, listings and image bytes are compared)
    for k in ("op", "a", "r", "sv", "dg", "tail", "beyond"):
        if k in ev:
            keep[k] = ev[k]
    r = keep.get("r")
    if isinstance(r, dict):
        r = dict(r)
        r.pop("labels", None)
        r.pop("msg", None)
        r.pop("calls", None)
        if isinstance(r.get("ents"), list):
            r["ents"] = [{k: v for k, v in x.items() if k not in _STRIP_ENTRY} for x in r["ents"]]
        keep["r"] = r
    if isinstance(keep.get("sv"), list):
        keep["sv"] = [{k: v for k, v in x.items() if k not in _STRIP_ENTRY} for x in keep["sv"]]
    return keep


def feature_pairs(name, programs, workdir, other, mode="run"):
    os.makedirs(workdir, exist_ok=True)
    bin_a = build("ref")
    bin_b = build(other)
    res = CampaignResult()
    res.programs = len(programs)
    for p in programs:
        res.progs[str(p["id"])] = p
    shards = shard(programs, max(1, min(12, len(programs) // 8 + 1)))
    files = []
    for k, sh in enumerate(shards):
        pf = os.path.join(workdir, "%s-p%02d.ndjson" % (name, k))
        with open(pf, "w") as f:
            for p in sh:
                f.write(json.dumps(p, separators=(",", ":")) + "\n")
        files.append((k, pf, os.path.join(workdir, "%s-a%02d.ndjson" % (name, k)), os.path.join(workdir, "%s-b%02d.ndjson" % (name, k)),
                      os.path.join(workdir, "%s-z%02d.ndjson" % (name, k))))
    t0 = time.time()

    def run_both(f):
        run_harness(bin_a, f[1], f[2], mode=mode)
        run_harness(bin_b, f[1], f[3], mode=mode)
        n = 0
        with open(f[2]) as fa, open(f[3]) as fb, open(f[4], "w") as fz:
            la, lb = fa.readlines(), fb.readlines()
            for i in range(max(len(la), len(lb))):
                ea = json.loads(la[i]) if i < len(la) else {"op": "missing", "pid": "?", "i": i}
                eb = json.loads(lb[i]) if i < len(lb) else {"op": "missing", "pid": "?", "i": i}
                z = {"op": "pair", "pid": ea.get("pid", eb.get("pid")), "i": ea.get("i", i), "other": other, "a": _strip(ea), "b": _strip(eb)}
                fz.write(json.dumps(z, separators=(",", ":")) + "\n")
                n += 1
                if len(res.samples) < 3 and ea.get("op") in ("create_file", "rename", "list"):
                    res.samples.append({"pid": z["pid"], "i": z["i"], "op": ea.get("op"), "a_r": _trim(ea.get("r")), "b_r": _trim(eb.get("r")), "dg_a": ea.get("dg"), "dg_b": eb.get("dg")})
                res.shapes.add((ea.get("op"), (ea.get("r") or {}).get("k"), (ea.get("r") or {}).get("e")))
        for x in (f[2], f[3]):
            os.remove(x)
        return n

    with ThreadPoolExecutor(max_workers=min(len(files), max(1, NCPU - 2))) as ex:
        counts = list(ex.map(run_both, files))
    res.wall_harness = time.time() - t0
    res.events = sum(counts)
    t0 = time.time()

    def one(f):
        return run_tlc(os.path.join(SPEC, "TraceFeature.tla"), os.path.join(SPEC, "TraceFeature.cfg"), {"TRACE": f[4]}, workdir, "%s-%02d" % (name, f[0]))

    with ThreadPoolExecutor(max_workers=min(len(files), 8)) as ex:
        outs = list(ex.map(one, files))
    res.wall_tlc = time.time() - t0
    for f, o in zip(files, outs):
        res.bytes += os.path.getsize(f[4])
        res.tlc_states += o["states"]
        res.tlc_distinct += o["distinct"]
        if not o["ok"]:
            res.tool_errors.append("TLC did not accept/finish shard %s of %s" % (f[0], name))
        for kind, fl in o["lines"]:
            if kind == "VIOL":
                res.viol.append(tuple(fl))
        os.remove(f[4])
    return res


# ------------------------------------------------------------------------------------------------
# design-level model checking (no implementation involved) and program generation from the state graph

def mc_run(spec, cfg_text, workdir, tag, workers=8, timeout=3000, xmx="6g", want_progs=False):
    """runs TLC on spec/<spec>.tla with the given cfg text; returns dict(states, distinct, ok, progs, wall, out_tail)"""
    os.makedirs(workdir, exist_ok=True)
    cfg = os.path.join(workdir, "%s-%s.cfg" % (spec, tag))
    with open(cfg, "w") as f:
        f.write(cfg_text)
    md = os.path.join(workdir, "md-mc-" + tag)
    tmp = os.path.join(workdir, "tmp-mc-" + tag)
    shutil.rmtree(md, ignore_errors=True)
    os.makedirs(tmp, exist_ok=True)
    env = dict(os.environ)
    env["JAVA_TOOL_OPTIONS"] = "-Xss64m -Djava.io.tmpdir=%s" % tmp
    # (-Xss on the command line too: initial states are computed on the main thread, whose stack JAVA_TOOL_OPTIONS does not size)
    cmd = ["java", "-Xss256m", "-XX:+UseParallelGC", "-XX:ParallelGCThreads=4", "-Xmx" + xmx, "-cp", TLC_CP, "tlc2.TLC", "-workers", str(workers), "-metadir", md,
           "-cleanup", "-noGenerateSpecTE", "-config", cfg, os.path.join(SPEC, spec + ".tla")]
    t0 = time.time()
    try:
        p = subprocess.run(cmd, cwd=SPEC, env=env, stdout=subprocess.PIPE, stderr=subprocess.STDOUT, text=True, timeout=timeout)
    except subprocess.TimeoutExpired:
        raise ToolError("TLC timed out on %s" % spec)
    finally:
        shutil.rmtree(tmp, ignore_errors=True)
        shutil.rmtree(md, ignore_errors=True)
    out = p.stdout
    ok = "Model checking completed. No error has been found." in out
    states = distinct = 0
    m = re.search(r"(\d+) states generated, (\d+) distinct states found", out)
    if m:
        states, distinct = int(m.group(1)), int(m.group(2))
    progs = []
    if want_progs:
        for ln in out.splitlines():
            if ln.startswith('<<"PROG", "'):
                body = ln[len('<<"PROG", "'):-3]
                try:
                    progs.append(json.loads(body.replace('\\"', '"').replace("\\\\", "\\")))
                except Exception:
                    pass
    depth = re.search(r"depth of the complete state graph search is (\d+)", out)
    tail = "\n".join(l for l in out.splitlines() if not re.match(r"^(Parsing|Semantic|Linting|Picked up|<<)", l))[-2500:]
    violated = re.findall(r"(?:Invariant|Action property|Temporal property|property) (\w+) is violated", out)
    return dict(spec=spec, ok=ok, states=states, distinct=distinct, depth=int(depth.group(1)) if depth else 0, progs=progs, violated=violated,
                wall=round(time.time() - t0, 1), out_tail=tail)


def apalache_inductive(spec, n, workdir, tag, timeout=1800, mutate=None):
    """Apalache on spec/<spec>.tla (typed): Init => IndInv (length 0) and IndInv /\\ Next => IndInv' (length 1, from an arbitrary state that
    satisfies IndInv) with N = n.  Returns dict(ok, finished, wall...).  A timeout is reported as not finished, not as a failure."""
    wd = os.path.join(workdir, "apa-" + tag)
    shutil.rmtree(wd, ignore_errors=True)
    os.makedirs(wd)
    shutil.copy(os.path.join(SPEC, spec + ".tla"), wd)
    if mutate:       # (selftest: a falsified action must break the inductive step)
        txt = open(os.path.join(wd, spec + ".tla")).read()
        assert mutate[0] in txt
        with open(os.path.join(wd, spec + ".tla"), "w") as f:
            f.write(txt.replace(mutate[0], mutate[1], 1))
    root = "%sN%d" % (spec, n)
    with open(os.path.join(wd, root + ".tla"), "w") as f:
        f.write("---- MODULE %s ----\nEXTENDS %s\nCInitN == N = %d\n====\n" % (root, spec, n))
    out = {"tool": "apalache-mc", "spec": spec, "N": n, "obligations": []}
    t0 = time.time()
    for name, args in (("Init => IndInv", ["--init=Init", "--inv=IndInv", "--length=0"]),
                       ("IndInv /\\ Next => IndInv'", ["--init=IndInv", "--inv=IndInv", "--length=1"])):
        t1 = time.time()
        try:
            p = subprocess.run(["apalache-mc", "check", "--cinit=CInitN", "--out-dir=" + os.path.join(wd, "out")] + args + [root + ".tla"], cwd=wd,
                               stdout=subprocess.PIPE, stderr=subprocess.STDOUT, text=True, timeout=timeout)
            res = "NoError" if "The outcome is: NoError" in p.stdout else ("Error" if "The outcome is: Error" in p.stdout else "tool-failure")
            tail = p.stdout[-1500:]
        except subprocess.TimeoutExpired:
            res, tail = "timeout", ""
        except FileNotFoundError:
            res, tail = "not-installed", ""
        out["obligations"].append({"obligation": name, "result": res, "wall": round(time.time() - t1, 1)})
        if res in ("Error", "tool-failure"):
            shutil.rmtree(wd, ignore_errors=True)
            raise ToolError("Apalache: %s of %s (N=%d): %s\n%s" % (name, spec, n, res, tail))
    shutil.rmtree(wd, ignore_errors=True)
    out["ok"] = all(o["result"] == "NoError" for o in out["obligations"])
    out["wall"] = round(time.time() - t0, 1)
    return out


def sweep_campaign(name, ranges, workdir, jvms=8):
    """C06: every sector count of the given ranges for default options through the boot-sector hook (`fxh fmtsweep`), run-length
    compressed into runs of equal layout; TLC (TraceFormat, fmtrun events) judges both ends of every run"""
    os.makedirs(workdir, exist_ok=True)
    binp = build("ref")
    res = CampaignResult()
    files = [(k, lo, hi, os.path.join(workdir, "%s-%03d.ndjson" % (name, k))) for k, (lo, hi) in enumerate(ranges)]
    t0 = time.time()

    def run(f):
        p = subprocess.run([binp, "fmtsweep", str(f[1]), str(f[2]), f[3]], stdout=subprocess.PIPE, stderr=subprocess.PIPE, text=True, timeout=7200)
        if p.returncode != 0:
            raise ToolError("fmtsweep failed: " + p.stderr[-500:])
        return json.loads(p.stdout.strip().splitlines()[-1])

    with ThreadPoolExecutor(max_workers=max(1, NCPU - 2)) as ex:
        infos = list(ex.map(run, files))
    res.wall_harness = time.time() - t0
    res.programs = sum(i["programs"] for i in infos)      # sector counts formatted
    res.events = sum(i["events"] for i in infos)          # runs
    t0 = time.time()

    def one(f):
        return run_tlc(os.path.join(SPEC, "TraceFormat.tla"), os.path.join(SPEC, "TraceFormat.cfg"), {"TRACE": f[3]}, workdir, "%s-%03d" % (name, f[0]), xmx="4g")

    with ThreadPoolExecutor(max_workers=jvms) as ex:
        outs = list(ex.map(one, files))
    res.wall_tlc = time.time() - t0
    for f, o in zip(files, outs):
        res.bytes += os.path.getsize(f[3])
        res.tlc_states += o["states"]
        res.tlc_distinct += o["distinct"]
        if not o["ok"]:
            res.tool_errors.append("TLC did not accept/finish sweep shard %s" % f[0])
        for kind, fl in o["lines"]:
            if kind == "VIOL":
                res.viol.append(tuple(fl))
                res.progs[str(fl[1])] = {"id": fl[1], "sweep": "default options, sector count range starting at the number in the id", "range": [f[1], f[2]]}
        if f[0] == 0:
            with open(f[3]) as fh:
                for n, ln in enumerate(fh):
                    if n in (0, 2, 50):
                        ev = json.loads(ln)
                        res.samples.append({"op": ev["op"], "lo": ev["lo"], "hi": ev["hi"], "r": ev["r"], "spc": ev.get("blo", {}).get("spc"), "spf16": ev.get("blo", {}).get("spf16")})
        os.remove(f[3])
    res.shapes.add(("fmtrun", "ok", ""))
    res.shapes.add(("fmtrun", "err", "InvalidInput"))
    return res
