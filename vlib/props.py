"""Per-property checks: which programs are generated, on which configurations, which specification
judges them.  Every verdict is a TLC verdict; this file only assembles campaigns."""
import collections
import json
import os
import random
import shutil
import subprocess
import sys
import time

from . import core, gen

LEVEL = "model_checking"


def workdir(prop):
    d = os.path.join(core.WORK, prop)
    shutil.rmtree(d, ignore_errors=True)
    os.makedirs(d, exist_ok=True)
    return d


def rng_for(prop, salt=0):
    return random.Random("%s-%d-%d" % (prop, core.seed(), salt))


def scale(q, t):
    return t if core.tier() == "thorough" else q


# ------------------------------------------------------------------------------------------------
# shared program families

def fam_ns(prop, kset, n_prog, n_ops, names=None, salt=0, **kw):
    rng = rng_for(prop, salt)
    names = names or gen.NAMES_ASCII
    progs = []
    for kname in kset:
        cfg = gen.K(kname)
        for i in range(n_prog):
            progs.append(gen.ns_program(rng, "ns-%s-%d" % (kname, i), cfg, n_ops, names, **kw))
    return via_entries(progs, rng)


CS = {"K1": 512, "K1b": 512, "K2": 1024, "K3": 512, "K4": 4096, "K4b": 4096, "K5": 512, "K5b": 1024, "K6": 65536}


def half(q, t):
    """thorough sizes of the two slowest checks (C05, C14) are halved so that they finish in about half an hour on 16 cores"""
    return scale(q, max(q, t // 2))


def via_entries(progs, rng, p=0.3):
    """some handles come from DirEntry::to_file()/to_dir() of the listed entry instead of open_file()/open_dir() (same meaning);
    one program in eight runs on a storage that transfers fewer bytes than asked (legal for Read/Write, invisible above the library)"""
    for pr in progs:
        if rng.random() < 0.125 and "short" not in pr["cfg"]:
            pr["cfg"] = dict(pr["cfg"], short=rng.randrange(1, 1 << 30))
        if "optord" not in pr["cfg"]:
            pr["cfg"] = dict(pr["cfg"], optord=rng.randrange(5))       # order of the FsOptions builder calls
        # one volume in six is formatted over a medium full of old data (quick format of a used medium)
        v = pr["cfg"].get("vol", {})
        if v.get("kind") == "format" and "prefill" not in v and v.get("size", 1 << 40) <= (40 << 20) and rng.random() < 0.17:
            pr["cfg"] = dict(pr["cfg"], vol=dict(v, prefill=rng.choice([0xD1, 0xFF, 0x01, 0xE5])))
        for o in pr["ops"]:
            if o.get("op") in ("open_file", "open_dir") and "/" not in o.get("path", "/") and rng.random() < p:
                o["via"] = "entry"
    return progs


def fam_io(prop, kset, n_prog, n_ops, salt=0, **kw):
    rng = rng_for(prop, 100 + salt)
    progs = []
    for kname in kset:
        cfg = gen.K(kname)
        for i in range(n_prog):
            progs.append(gen.io_program(rng, "io-%s-%d" % (kname, i), cfg, CS[kname], n_ops, n_files=rng.choice([1, 2, 3]), **kw))
    return via_entries(progs, rng)


def fam_fill(prop, kset, n_prog, salt=0, **kw):
    rng = rng_for(prop, 200 + salt)
    progs = []
    for kname in kset:
        cfg = gen.K(kname)
        for i in range(n_prog):
            progs.append(gen.fill_program(rng, "fill-%s-%d" % (kname, i), cfg, CS[kname], rounds=rng.choice([2, 3]),
                                          probe_stats=(i % 2 == 0), **kw))
    return via_entries(progs, rng)


def regress_programs():
    out = []
    d = os.path.join(core.ROOT, "programs", "regress")
    for fn in sorted(os.listdir(d)):
        if fn.endswith(".json"):
            with open(os.path.join(d, fn)) as f:
                p = json.load(f)
            p["id"] = "regress-" + fn[:-5]
            p["origin"] = "regress:" + fn
            out.append(p)
    return out


ASSUME_TRACE = [
    "the projection (independent decoder: byte-to-field splitting, chain following for reading, u64 region mapping) is correct",
    "programs stay inside the documented contract (one handle per file, no remove/rename of objects with live handles, no '.'/'..' components)",
    "conformance is observational: code paths not driven by the generated programs are not judged",
]


# ------------------------------------------------------------------------------------------------
# properties decided on TraceFatFs

MC_TREE_CFG = """SPECIFICATION Spec
CONSTANT FoldTab <- EmptyFold
CONSTANT MaxOps = %d
CONSTANT MaxNodes = %d
CONSTANT Gen = %s
INVARIANT WellFormed
INVARIANT ErrorsAreDocumented
VIEW View
CHECK_DEADLOCK FALSE
"""


MC_B_CFG = """SPECIFICATION Spec
CONSTANT N = %d
CONSTANT SPC = 4
CONSTANT ROOT = %d
CONSTANT MaxOps = %d
CONSTANT Legacy = %s
CONSTANT Features = %s
INVARIANT StructInv
INVARIANT FreeExactMounted
INVARIANT HintInRange
INVARIANT DirtyBracket
INVARIANT StatusNeverCleared
INVARIANT FsInfoExact
PROPERTY Refines
CHECK_DEADLOCK FALSE
"""


def mc_layer_b(wd, tag="b", deep=False):
    """design-level model checking of Layer B (FatFsB): every history of the modelled algorithms up to the bound, on a fixed-root volume
    and on a chain-root volume with file handles (deferred entry write-back) and the mount/unmount protocol; invariants StructInv on the
    effective view (C03, D-F20), FreeExactMounted / HintInRange / FsInfoExact (C05), DirtyBracket / StatusNeverCleared (C12), action
    property Refines (C01)"""
    n, ops = ((4, 4) if deep else (4, 3)) if core.tier() == "quick" else (5, 5)
    out = {"spec": "FatFsB", "constants": {"N": n, "SPC": 4, "MaxOps": ops}, "runs": []}
    states = distinct = 0
    for root, feats in ((6, "{}"), (0, '{"handles", "mount"}')):
        r = core.mc_run("FatFsB", MC_B_CFG % (n, root, ops, "{}", feats), wd, "%s-root%d" % (tag, root), workers=8)
        if not r["ok"]:
            raise core.ToolError("FatFsB model checking failed (ROOT=%d):\n%s" % (root, r["out_tail"]))
        out["runs"].append({"ROOT": root, "Features": feats, "states": r["states"], "distinct": r["distinct"], "depth": r["depth"], "wall": r["wall"]})
        states += r["states"]
        distinct += r["distinct"]
    out["states"] = states
    out["distinct"] = distinct
    out["ok"] = True
    if deep:
        # the binding of Layer B to the code: behaviours generated from the model, replayed, predicted vs observed raw image
        out["impl_model_conformance"] = [b_conformance(wd, scale(40, 400), depth=12, n_clusters=20, handles=True),
                                         b_conformance(wd, scale(40, 400), depth=24, n_clusters=8, grow=True, handles=True)]
        for c in out["impl_model_conformance"]:
            if c["tool_errors"]:
                raise core.ToolError("Layer B conformance replay failed:\n" + c["tool_errors"][0])
            c.pop("tool_errors")
            if c["drift"]:
                print("NOTE: Layer B no longer describes the code on %d of %d compared calls (model drift, not a violation): %s"
                      % (c["drift"], c["compared"], c["drift_samples"][:2]))
    return out


def mc_fat_inductive(wd):
    """the table algebra behind C03/C05 for EVERY history of table mutations: Apalache shows the invariant of FatInd inductive (checked from an
    arbitrary table satisfying it), TLC enumerates every table over N clusters and shows the invariant means exactly 'forest of simple
    chains, nothing lost, count exact' (MC_FatInd: Meaning, Complete)"""
    n_apa, n_enum = scale(6, 8), scale(5, 6)
    out = {"spec": "FatInd", "inductive": core.apalache_inductive("FatInd", n_apa, wd, "fatind", timeout=scale(600, 3000))}
    r = core.mc_run("MC_FatInd", "SPECIFICATION EnumSpec\nCONSTANT N = %d\nINVARIANT Meaning\nINVARIANT Complete\nCHECK_DEADLOCK FALSE\n" % n_enum,
                    wd, "fatind", workers=8)
    if not r["ok"]:
        raise core.ToolError("MC_FatInd failed:\n" + r["out_tail"])
    out["meaning"] = {"tool": "TLC", "N": n_enum, "tables_enumerated": r["distinct"], "invariants": ["Meaning", "Complete"], "wall": r["wall"]}
    return out


def mc_device(wd):
    """design-level model of C09 (Device.tla): straight-line propagation and the chain-freeing loop over a latching iterator"""
    cfg = "SPECIFICATION Spec\nCONSTANT ChainLen = %d\nCONSTANT Budget = 60\nCONSTANT Legacy = FALSE\nINVARIANT WithinBudget\nINVARIANT Surfaced\nPROPERTY Terminates\nCHECK_DEADLOCK FALSE\n" % scale(6, 12)
    r = core.mc_run("Device", cfg, wd, "device", workers=2)
    if not r["ok"]:
        raise core.ToolError("Device model checking failed:\n" + r["out_tail"])
    r.pop("out_tail", None)
    r.pop("progs", None)
    return r


def mc_durable(wd):
    """design-level model of C14 (Durable.tla): entry write-back then storage flush is sufficient on a write-back cache honouring flush"""
    cfg = "SPECIFICATION Spec\nCONSTANT MaxWrites = %d\nCONSTANT Skip = {}\nINVARIANT Durable\nCHECK_DEADLOCK FALSE\n" % scale(5, 9)
    r = core.mc_run("Durable", cfg, wd, "durable", workers=2)
    if not r["ok"]:
        raise core.ToolError("Durable model checking failed:\n" + r["out_tail"])
    r.pop("out_tail", None)
    r.pop("progs", None)
    return r


BGEN_CFG = """SPECIFICATION GSpec
CONSTANT N = %d
CONSTANT SPC = 16
CONSTANT ROOT = 16
CONSTANT MaxOps = %d
CONSTANT Features = %s
CONSTANT Legacy = {}
CONSTANT Grow = %s
INVARIANT Emit
CHECK_DEADLOCK FALSE
"""
BNAMES = {"a": "a", "A": "A", "b": "b", "L": "Long name xyz.txt"}


def b_conformance(wd, n_beh, depth=10, corrupt=False, n_clusters=20, grow=False, handles=False):
    """behaviours of Layer B generated by TLC (simulation mode, realistic constants: 20 clusters, 16 slots per cluster, fixed root of 16
    slots) replayed on the real library; TraceB compares the model's predicted directory slots and table with the raw image"""
    cfgp = os.path.join(wd, "bgen.cfg")
    with open(cfgp, "w") as f:
        f.write(BGEN_CFG % (n_clusters, depth, '{"handles"}' if handles else "{}", "TRUE" if grow else "FALSE"))
    hists = {}
    for k in range(8):
        if len(hists) >= n_beh:
            break
        tmp = os.path.join(wd, "tmp-bgen")
        os.makedirs(tmp, exist_ok=True)
        env = dict(os.environ, JAVA_TOOL_OPTIONS="-Djava.io.tmpdir=%s" % tmp)
        cmd = ["java", "-XX:+UseParallelGC", "-XX:ParallelGCThreads=2", "-Xmx2g", "-cp", core.TLC_CP, "tlc2.TLC", "-workers", "1", "-simulate",
               "num=%d" % max(20, n_beh // 2), "-depth", str(depth + 2), "-seed", str(core.seed() * 100 + k), "-metadir", os.path.join(wd, "md-bgen"),
               "-cleanup", "-noGenerateSpecTE", "-config", cfgp, os.path.join(core.SPEC, "MC_BGen.tla")]
        p = subprocess.run(cmd, cwd=core.SPEC, env=env, stdout=subprocess.PIPE, stderr=subprocess.STDOUT, text=True, timeout=900)
        shutil.rmtree(tmp, ignore_errors=True)
        shutil.rmtree(os.path.join(wd, "md-bgen"), ignore_errors=True)
        for ln in p.stdout.splitlines():
            if ln.startswith('<<"BPROG", "'):
                body = ln[len('<<"BPROG", "'):-3].replace('\\"', '"').replace("\\\\", "\\")
                hists[body] = 1
    progs = []
    cs = 512
    for i, body in enumerate(list(hists)[:n_beh]):
        try:
            h = json.loads(body)
        except Exception:
            continue
        ops = []
        n = 0
        for st in h:
            o = st["op"]
            tag = {"res": st["res"], "ids": st["ids"], "dirs": st["dirs"], "fat": st["fat"], "cmp": "both"}
            path = "/".join([BNAMES[x] for x in st["dp"]] + [BNAMES[o["n"]]]) if "n" in o else ""
            if o["op"] in ("create_file", "create_dir", "remove"):
                ops.append({"op": o["op"], "at": "", "path": path, "tag": tag})
            elif o["op"] == "rename":
                dst = "/".join([BNAMES[x] for x in st["dp2"]] + [BNAMES[o["n2"]]])
                ops.append({"op": "rename", "at": "", "src": path, "to": "", "dst": dst, "tag": tag})
            elif o["op"] == "open":              # one live handle "H": the entry lags until flush / close (D-F20), as Layer B says
                ops.append({"op": "open_file", "at": "", "path": path, "as": "H", "tag": tag})
                ops.append({"op": "seek", "h": "H", "from": "end", "off": 0})
            elif o["op"] == "hwrite":
                n += 1
                ops.append({"op": "write_all", "h": "H", "pat": n, "len": cs, "tag": tag})
            elif o["op"] == "htrunc":
                ops.append({"op": "seek", "h": "H", "from": "start", "off": 0})
                ops.append({"op": "truncate", "h": "H", "tag": tag})
            elif o["op"] in ("hflush", "hclose"):
                ops.append({"op": "flush" if o["op"] == "hflush" else "close", "h": "H", "tag": tag})
            elif o["op"] in ("append", "truncate"):
                if st["res"] == "NotFound":
                    continue          # (the model's "not a file" has no single counterpart in the API)
                n += 1
                hh = "b%d" % n
                ops.append({"op": "open_file", "at": "", "path": path, "as": hh})
                if o["op"] == "append":
                    ops.append({"op": "seek", "h": hh, "from": "end", "off": 0})
                    ops.append({"op": "write_all", "h": hh, "pat": n, "len": cs, "tag": dict(tag, cmp="res")})
                else:
                    ops.append({"op": "seek", "h": hh, "from": "start", "off": 0})
                    ops.append({"op": "truncate", "h": hh, "tag": dict(tag, cmp="res")})
                ops.append({"op": "close", "h": hh, "tag": dict(tag, cmp="state")})
        ops.append({"op": "unmount"})
        if corrupt:                  # binding demonstration: falsify one predicted table cell of the last compared call
            tg = [o for o in ops if "tag" in o and o["tag"]["cmp"] != "res"]
            if tg:
                t = tg[-1]["tag"] = json.loads(json.dumps(tg[-1]["tag"]))
                k = str(n_clusters + 1)
                t["fat"][k] = -1 if t["fat"][k] == 0 else 0
        progs.append({"id": "bgen%d-%d" % (n_clusters, i), "cfg": {"vol": gen.fmt((3 + n_clusters) * 512, bpc=512, fats=1, root=16)}, "ops": ops, "origin": "tlc:MC_BGen"})
    r = core.campaign("layer-b", progs, wd, spec="TraceB", n_shards=8)
    drift = [t for t in r.notes if str(t[0]).startswith("B.")]
    return {"behaviours": len(progs), "events": r.events, "compared": len([t for t in r.infos if t[0] == "compared"]), "drift": len(drift), "drift_samples": [list(t) for t in drift[:5]],
            "tool_errors": r.tool_errors[:1],
            "results": sorted({st["res"] for b in list(hists)[:n_beh] for st in json.loads(b)}),
            "calls": dict(collections.Counter(st["op"]["op"] for b in list(hists)[:n_beh] for st in json.loads(b)))}


FILEB_CFG = """SPECIFICATION Spec
CONSTANT N = %d
CONSTANT CS = 2
CONSTANT MaxOps = %d
CONSTANT MaxLen = 3
CONSTANT Legacy = %s
CONSTANT Gen = %s
INVARIANT RepInv
INVARIANT SizeChain
INVARIANT Content
INVARIANT PosOk
INVARIANT Ownership
INVARIANT Flushed
INVARIANT ResultsOk
VIEW View
CHECK_DEADLOCK FALSE
"""
FILEB_CELL = 256


def fileb_program(pid, hist, n_clusters, corrupt=False):
    """a behaviour of FileB as a program: one open handle F on F.BIN, a second file O.BIN that is appended to / emptied through short-lived
    handles; a cell is 256 bytes, a cluster two cells; `tag` carries the model's prediction after the call"""
    U = FILEB_CELL
    ops = [{"op": "create_file", "at": "", "path": "F.BIN", "as": "F"},
           {"op": "create_file", "at": "", "path": "O.BIN", "as": "O"}, {"op": "close", "h": "O"}]
    for k, st in enumerate(hist):
        o = st["op"]
        tag = {"cell": U, "res": st["res"], "fat": st["fat"], "ent": st["ent"], "oth": st["oth"], "cmp": "both"}
        if corrupt and k == len(hist) - 1:           # binding demonstration: falsify the predicted entry of the other file / a table cell
            tag = json.loads(json.dumps(tag))
            kk = str(n_clusters + 1)
            tag["fat"][kk] = -1 if tag["fat"][kk] == 0 else 0
        name = o["op"]
        if name == "write":
            ops.append({"op": "write", "h": "F", "pat": 3 + k, "len": o["n"] * U, "tag": tag})
        elif name == "read":
            ops.append({"op": "read", "h": "F", "len": o["n"] * U, "tag": tag})
        elif name == "seek":
            ops.append({"op": "seek", "h": "F", "from": {"start": "start", "cur": "current", "end": "end"}[o["from"]], "off": o["x"] * U, "tag": tag})
        elif name in ("truncate", "flush"):
            ops.append({"op": name, "h": "F", "tag": tag})
        elif name == "reopen":
            ops.append({"op": "close", "h": "F"})
            ops.append({"op": "open_file", "at": "", "path": "F.BIN", "as": "F", "tag": dict(tag, cmp="state")})
        elif name == "oappend":
            ops.append({"op": "open_file", "at": "", "path": "O.BIN", "as": "O"})
            ops.append({"op": "seek", "h": "O", "from": "end", "off": 0})
            ops.append({"op": "write", "h": "O", "pat": 90 + k, "len": 2 * U, "tag": dict(tag, res={"k": st["res"]["k"], **({"e": st["res"]["e"]} if "e" in st["res"] else {})}, cmp="res")})
            ops.append({"op": "close", "h": "O", "tag": dict(tag, cmp="state")})
        elif name == "oempty":
            ops.append({"op": "open_file", "at": "", "path": "O.BIN", "as": "O"})
            ops.append({"op": "truncate", "h": "O"})
            ops.append({"op": "close", "h": "O", "tag": dict(tag, cmp="state")})
    ops.append({"op": "close", "h": "F"})
    ops.append({"op": "unmount"})
    # (format_volume refuses volumes of fewer than 8 clusters: the image builder makes the 4..6 cluster volume of the model)
    vol = {"kind": "builder", "ft": 12, "bps": 512, "spc": 1, "n": n_clusters, "nfats": 1, "rsvd": 1, "rootn": 16, "pad": "eoc", "tree": []}
    return {"id": pid, "cfg": {"vol": vol, "cell": U}, "ops": ops, "origin": "tlc:FileB"}


def mc_file_b(wd, sample_rng=None, corrupt=False):
    """design-level model checking of the file cursor machine (FileB: read / write / seek / truncate / flush / reopen of file.rs over a small
    table, a second file fragmenting it), and its binding to the code: every transition of the explored state graph is printed as a program
    with the model's prediction after each call, replayed on the real library (quick: a sample) and compared (TraceB: result, table, both
    directory entries); the same programs are judged by Layer A (TraceFatFs) like every other program"""
    n, ops = scale((5, 8), (6, 11))
    r = core.mc_run("FileB", FILEB_CFG % (n, ops, "{}", "FALSE"), wd, "fileb", workers=8, xmx="10g")
    if not r["ok"]:
        raise core.ToolError("FileB model checking failed:\n" + r["out_tail"])
    out = {"spec": "FileB", "constants": {"N": n, "CS": 2, "MaxOps": ops, "MaxLen": 3}, "states": r["states"], "distinct": r["distinct"], "depth": r["depth"],
           "wall": r["wall"], "invariants": ["RepInv", "SizeChain", "Content", "PosOk", "Ownership", "Flushed", "ResultsOk"], "ok": True}
    if core.tier() == "thorough":
        # the complete reachable state space of the model on a 3-cluster table (no bound on the number of calls: the model is finite)
        c = core.mc_run("FileB", FILEB_CFG % (3, 9999, "{}", "FALSE"), wd, "fileb-all", workers=12, xmx="14g", timeout=6000)
        if not c["ok"]:
            raise core.ToolError("FileB model checking (complete, N=3) failed:\n" + c["out_tail"])
        out["complete_state_space"] = {"N": 3, "CS": 2, "MaxLen": 3, "states": c["states"], "distinct": c["distinct"], "depth": c["depth"], "wall": c["wall"]}
        out["states"] += c["states"]
        out["distinct"] += c["distinct"]
    gn, gops = scale((4, 5), (4, 7))
    # (one worker: which history reaches a state first, and with it the set of printed programs, is then the same in every run)
    g = core.mc_run("FileB", FILEB_CFG % (gn, gops, "{}", "TRUE"), wd, "fileb-gen", workers=1, want_progs=True, xmx="6g")
    if not g["ok"]:
        raise core.ToolError("FileB generation failed:\n" + g["out_tail"])
    hists = g.pop("progs")
    out["transitions_as_programs"] = len(hists)
    k = scale(1200, 12000)
    if sample_rng is not None and len(hists) > k:
        hists = sample_rng.sample(hists, k)
    progs = [fileb_program("fileb-%d" % i, h, gn, corrupt=corrupt) for i, h in enumerate(hists)]
    out["replayed"] = len(progs)
    return out, progs


def fileb_drift(name, progs, wd):
    r = core.campaign(name, progs, wd, spec="TraceB", n_shards=8)
    drift = [t for t in r.notes if str(t[0]).startswith("B.")]
    return {"behaviours": len(progs), "events": r.events, "compared": len([t for t in r.infos if t[0] == "compared"]), "drift": len(drift),
            "drift_samples": [list(t) for t in drift[:5]], "tool_errors": r.tool_errors[:1]}


LFN_CFG = """SPECIFICATION Spec
CONSTANT MaxSlots = %d
CONSTANT Build = "%s"
CONSTANT Legacy = %s
CONSTANT Small = %s
CONSTANT Gen = %s
INVARIANT Decoded
INVARIANT Count
INVARIANT Bounded
CHECK_DEADLOCK FALSE
"""


def mc_lfn_reader(wd):
    """design-level model checking of the directory reader (LfnReader: read_dir_entry driving LongNameBuilder over both LfnBuffer
    implementations) on EVERY slot sequence of up to 4 slots over a 52-symbol alphabet (thorough: also 5 slots over 36 symbols): each entry
    returned carries a long name DirSlots!LongNameOk accepts, one entry per live short slot, no out-of-range buffer access"""
    out = {"spec": "LfnReader", "runs": [], "states": 0, "distinct": 0, "ok": True, "invariants": ["Decoded", "Count", "Bounded"]}
    confs = [(4, "alloc", "FALSE"), (4, "fixed", "FALSE")] + ([(5, "alloc", "TRUE"), (5, "fixed", "TRUE")] if core.tier() == "thorough" else [])
    for n, build, small in confs:
        r = core.mc_run("LfnReader", LFN_CFG % (n, build, "{}", small, "FALSE"), wd, "lfn-%s-%d" % (build, n), workers=8, xmx="12g", timeout=6000)
        if not r["ok"]:
            raise core.ToolError("LfnReader model checking failed (%s, %d slots):\n%s" % (build, n, r["out_tail"]))
        out["runs"].append({"MaxSlots": n, "Build": build, "small_alphabet": small == "TRUE", "states": r["states"], "distinct": r["distinct"], "wall": r["wall"]})
        out["states"] += r["states"]
        out["distinct"] += r["distinct"]
    out["impl_model_conformance"] = lfn_conformance(wd)
    return out


def lfn_slots_bytes(slots):
    out = []
    for sl in slots:
        if sl["t"] == "L":
            out.append(gen.lfn_slot(sl["o"], sl["k"], sl["u"]))
        elif sl["t"] == "S":
            out.append(gen.sfn_slot(sl["n"], attr=sl["at"]))
        else:
            out.append([0xE5] + gen.sfn_slot([ord(c) for c in "GONE    TMP"])[1:])
    return out


def lfn_conformance(wd, corrupt=False):
    """the binding of LfnReader to the code: every directory of up to 3 slots over the model's alphabet (8 271) is printed by TLC with the long
    names the model's reader returns, written into a root directory, listed by the library under both buffer builds, and compared"""
    g = core.mc_run("LfnReader", LFN_CFG % (3, "alloc", "{}", "FALSE", "TRUE"), wd, "lfn-gen", workers=1, want_progs=True)
    if not g["ok"]:
        raise core.ToolError("LfnReader generation failed:\n" + g["out_tail"])
    hists = g.pop("progs")
    specs = []
    per = 300
    for i in range(0, len(hists), per):
        chunk = hists[i:i + per]
        preds = [h["pred"] for h in chunk]
        if corrupt:
            preds = [p[:-1] + [[122]] if p else p for p in preds]      # (binding demonstration: the last predicted name falsified)
        specs.append({"id": "lfn-%d" % (i // per), "base": gen.K("K3")["vol"], "dirs": [lfn_slots_bytes(h["slots"]) for h in chunk], "pred": preds})
    res = {"directories": len(hists), "builds": {}}
    for feat in ("ref", "noalloc"):
        r = core.campaign("lfn-%s" % feat, specs, wd, feat=feat, spec="TraceDirDecode", mode="dirs", n_shards=8, jvms=8)
        if r.tool_errors:
            raise core.ToolError("LfnReader conformance replay failed:\n" + r.tool_errors[0])
        drift = [t for t in r.notes if str(t[0]).startswith("B.")]
        res["builds"][feat] = {"compared": len([t for t in r.infos if t[0] == "compared"]), "drift": len(drift), "drift_samples": [list(t) for t in drift[:3]],
                               "violations": len(r.viol)}
        if drift:
            print("NOTE: LfnReader no longer describes the code on %d of %d directories (%s build; model drift, not a violation): %s"
                  % (len(drift), res["builds"][feat]["compared"], feat, drift[:2]))
    return res


ALIAS_CFG = """SPECIFICATION Spec
CONSTANT HMAX = %d
CONSTANT NL = %d
CONSTANT NH = %d
CONSTANT MaxExisting = %d
CONSTANT Legacy = %s
CONSTANT Gen = %s
CONSTANT GenHashes <- %s
INVARIANT Unique
INVARIANT Bounded
%s
CHECK_DEADLOCK FALSE
"""


def mc_alias_gen(wd, rng, corrupt=False, only_replay=False):
    """design-level model checking of the 8.3 alias generator (AliasGen: scan, generate, next_iteration) for every directory content over a small
    universe (uniqueness, termination within HMAX iterations), and its binding to the code: the structured family of directories around the
    wrap of the 16-bit hash (PREFIX~i row full or lacking one tail, rows of hashes 0xFFFE / 0xFFFF / 0x0000 empty, full or lacking one tail)
    is built on a real volume from user-chosen 8.3 names, a long name with that hash is created, and the alias the library chose is compared
    with the model's"""
    out = {"spec": "AliasGen", "ok": True, "states": 0, "distinct": 0}
    if not only_replay:
        for hmax, nl, nh, mx in ((4, 2, 2, 9), (3, 2, 3, 10)) + (((5, 3, 2, 12),) if core.tier() == "thorough" else ()):
            r = core.mc_run("AliasGen", ALIAS_CFG % (hmax, nl, nh, mx, "{}", "FALSE", "NoHashes", "PROPERTY Terminates"), wd, "alias-%d" % hmax, workers=4)
            if not r["ok"]:
                raise core.ToolError("AliasGen model checking failed:\n" + r["out_tail"])
            out["states"] += r["states"]
            out["distinct"] += r["distinct"]
            out.setdefault("runs", []).append({"HMAX": hmax, "NL": nl, "NH": nh, "MaxExisting": mx, "states": r["states"], "wall": r["wall"], "properties": ["Unique", "Bounded", "Terminates"]})
    g = core.mc_run("AliasGen", ALIAS_CFG % (65536, 4, 9, 40, "{}", "TRUE", "WrapHashes", ""), wd, "alias-gen", workers=1, want_progs=True)
    if not g["ok"]:
        raise core.ToolError("AliasGen generation failed:\n" + g["out_tail"])
    hists = g.pop("progs")
    out["behaviours_generated"] = len(hists)
    k = scale(160, 2400)
    if len(hists) > k:
        hists = rng.sample(hists, k)
    names = {c: gen.names_with_hash(rng, 12, c) for c in (65534, 65535)}
    progs = []

    def alias_name(a):
        return "WRAPAR~%d.TXT" % a[1] if a[0] == "L" else "WR%04X~%d.TXT" % (a[1], a[2])
    for i, h in enumerate(hists):
        ops = [{"op": "create_dir", "at": "", "path": "d", "as": "D"}]
        for a in h["existing"]:
            ops.append({"op": "create_file", "at": "D", "path": alias_name(a)})
        want = alias_name(h["alias"])
        raw = [ord(c) for c in want[:8]] + [ord(c) for c in "TXT"]
        if corrupt:
            raw[7] = raw[7] ^ 1
        ops.append({"op": "create_file", "at": "D", "path": rng.choice(names[h["chk0"]]), "tag": {"alias": raw, "cmp": "both"}})
        ops.append({"op": "unmount"})
        progs.append({"id": "aliasgen-%d" % i, "cfg": gen.K("K3"), "ops": ops, "origin": "tlc:AliasGen"})
    r = core.campaign("alias-gen", progs, wd, spec="TraceB", n_shards=8)
    if r.tool_errors:
        raise core.ToolError("AliasGen conformance replay failed:\n" + r.tool_errors[0])
    drift = [t for t in r.notes if str(t[0]).startswith("B.")]
    out["impl_model_conformance"] = {"behaviours": len(progs), "compared": len([t for t in r.infos if t[0] == "compared"]), "drift": len(drift), "drift_samples": [list(t) for t in drift[:3]]}
    if drift and not corrupt:
        print("NOTE: AliasGen no longer describes the code on %d of %d directories (model drift, not a violation): %s" % (len(drift), len(progs), drift[:2]))
    return out, progs


TABLE_ORDER_CFG = "SPECIFICATION Spec\nCONSTANT N = %d\nCONSTANT MaxOps = 1000000\nCONSTANT Legacy = %s\nINVARIANT LinkFree\nINVARIANT Acyclic\nVIEW View\nCHECK_DEADLOCK FALSE\n"


def mc_table_order(wd):
    """design level of C03.link_free (TableOrder): alloc / free / truncate as sequences of single-entry table writes any of which may be the
    last the storage accepts; the complete state space for N clusters: no used entry ever links to a free one, links stay acyclic"""
    n = scale(7, 8)
    r = core.mc_run("TableOrder", TABLE_ORDER_CFG % (n, "{}"), wd, "tableorder", workers=8, xmx="10g", timeout=6000)
    if not r["ok"]:
        raise core.ToolError("TableOrder model checking failed:\n" + r["out_tail"])
    return {"spec": "TableOrder", "N": n, "complete_state_space": True, "states": r["states"], "distinct": r["distinct"], "depth": r["depth"], "wall": r["wall"],
            "invariants": ["LinkFree", "Acyclic"]}


def units_str(u):
    return "".join(chr(x) for x in u)


def tree_programs(wd, max_ops, max_nodes, sample, rng, kset):
    """design-level exploration of TreeModel (MC_Tree) and one program per transition of its state graph"""
    mc = core.mc_run("MC_Tree", MC_TREE_CFG % (max_ops, max_nodes, "TRUE"), wd, "tree", want_progs=True)
    if not mc["ok"]:
        raise core.ToolError("MC_Tree failed:\n" + mc["out_tail"])
    hists = mc.pop("progs")
    mc.pop("out_tail", None)
    mc["transitions_as_programs"] = len(hists)
    if sample and len(hists) > sample:
        hists = rng.sample(hists, sample)
    progs = []
    for i, h in enumerate(hists):
        ops = []
        for o in h["ops"]:
            path = "/".join(units_str(c) for c in o["p"])
            if o["op"] == "rename":
                ops.append({"op": "rename", "at": "", "src": path, "to": "", "dst": "/".join(units_str(c) for c in o["q"])})
            elif o["op"] == "list":
                ops.append({"op": "list", "at": "", "path": path})
            else:
                ops.append({"op": o["op"], "at": "", "path": path})
        ops.append({"op": "unmount"})
        progs.append({"id": "mc-tree-%d" % i, "cfg": gen.K(kset[i % len(kset)]), "ops": ops, "origin": "tlc:MC_Tree"})
    mc["replayed"] = len(progs)
    return mc, progs


def c01():
    t0 = time.time()
    wd = workdir("C01")
    names = gen.NAMES_ASCII + gen.NAMES_UNI + gen.NAMES_EDGE
    res = []
    res.append(("ns-small", core.campaign("ns-small", fam_ns("C01", ["K1", "K1b", "K2"], scale(40, 400), 40, names), wd)))
    res.append(("ns-wide", core.campaign("ns-wide", fam_ns("C01", ["K3", "K4b", "K5"], scale(10, 100), 60, names, salt=1), wd)))
    res.append(("regress", core.campaign("regress", regress_programs(), wd)))
    # directories on multi-sector clusters full of old data
    rng9 = rng_for("C01", 19)
    res.append(("stale-dir", core.campaign("stale-dir", [gen.stale_dir_program(rng9, "stale-dir-%d" % i, [1024, 2048, 4096][i % 3]) for i in range(scale(12, 120))], wd)))
    mc, progs = tree_programs(wd, scale(3, 4), scale(4, 5), scale(1500, 0), rng_for("C01", 9), ["K1b", "K2", "K5"])
    res.append(("mc-tree", core.campaign("mc-tree", progs, wd, n_shards=14)))
    mcb = mc_layer_b(wd)
    mc = {"states": mc["states"] + mcb["states"], "distinct": mc["distinct"] + mcb["distinct"], "MC_Tree": mc, "FatFsB": mcb}
    core.finish("C01", LEVEL, res, mc, t0,
                "(0) TLC model-checks Layer B (FatFsB: the library's algorithms on a 4-5 cluster volume, every history up to the bound) against the "
                "action property Refines (a failing call changes nothing, a succeeding one changes exactly what it names); "
                "(1) TLC explores the reference model exhaustively (MC_Tree: 4 names in 2 fold classes + a multi-slot long name, paths of depth <= 2, "
                "create/open/list/remove/rename) and every transition of that state graph (distinct tree x operation, with a shortest history) is "
                "replayed on the real library (quick: a sample); (2) random namespace programs with live handles on FAT12/16/32 configurations; every "
                "call's result and the tree after it are judged by TLC against TreeModel; distinct = (op, result kind, error kind) shapes observed",
                ASSUME_TRACE)


def c02():
    t0 = time.time()
    wd = workdir("C02")
    res = []
    res.append(("io-small", core.campaign("io-small", fam_io("C02", ["K1b", "K2"], scale(40, 400), 60), wd)))
    res.append(("io-wide", core.campaign("io-wide", fam_io("C02", ["K3", "K4", "K5"], scale(8, 80), 60, salt=1), wd)))
    # a storage that transfers fewer bytes than asked (legal for Read/Write): the cursor follows what was transferred
    rng = rng_for("C02", 9)
    short = fam_io("C02", ["K1b", "K2", "K5"], scale(10, 100), 50, salt=9)
    for p in short:
        p["cfg"] = dict(p["cfg"], short=rng.randrange(1, 1 << 30))
        p["id"] += "-short"
    res.append(("io-short", core.campaign("io-short", short, wd)))
    # shrink / empty a file, let other files take the space (same session or after a remount), write it again
    reuse = [gen.reuse_program(rng, "reuse-%s-%d" % (k, i), gen.K(k), CS[k]) for k in ("K1", "K1b", "K2", "K5") for i in range(scale(8, 80))]
    res.append(("io-reuse", core.campaign("io-reuse", reuse, wd)))
    # 64 KiB clusters (the cluster size does not fit 16 bits); contents observed in cells of 8 KiB, lengths and offsets in whole cells
    big = [gen.scaled(gen.io_program(rng, "bigclu-%d" % i, gen.K("K6"), 65536 // 8192, 40, n_files=2, max_clusters=3), 8192) for i in range(scale(4, 40))]
    res.append(("io-bigcluster", core.campaign("io-bigcluster", big, wd)))
    # files in the highest cluster numbers of the largest FAT12 / FAT16 volumes
    top = []
    for i in range(scale(6, 60)):
        vol, cs = gen.top_clusters_volume(rng, [12, 16][i % 2])
        top.append(gen.io_program(rng, "top-%d" % i, {"vol": vol}, cs, 40, n_files=3, max_clusters=4))
    res.append(("io-top", core.campaign("io-top", top, wd)))
    # the device as a std::io object behind StdIoWrapper (half of the programs with short transfers)
    std = fam_io("C02", ["K1b", "K3", "K5"], scale(10, 100), 50, salt=11)
    for i, p in enumerate(std):
        p["id"] += "-std"
        if i % 2:
            p["cfg"] = dict(p["cfg"], short=rng.randrange(1, 1 << 30))
    res.append(("io-stdio", core.campaign("io-stdio", std, wd, feat="refstd")))
    # a transient storage error in the flush that should store the entry, then a good flush / close: a fresh handle reads what was written
    ff = [gen.flush_fault_io_program(rng, "flush-fault-%d" % i, gen.K(["K1b", "K2", "K5"][i % 3]), CS[["K1b", "K2", "K5"][i % 3]]) for i in range(scale(24, 240))]
    res.append(("io-flush-fault", core.campaign("io-flush-fault", ff, wd)))
    # volumes larger than 4 GiB: a file in the first clusters and files beyond the 4 GiB mark (device offsets need more than 32 bits)
    lg = [gen.large_program(rng, "c02-large-%s-%s" % (k, h), k, h) for k in ("4g", "1t") for h in ("4g", "last", "before_last")]
    res.append(("io-large", core.campaign("io-large", lg, wd)))
    # every device call of a multi-cluster write interrupted once (EINTR-like): the looping callers repeat the piece, the file reads back
    iw = []
    for kname in ("K1b", "K3", "K5"):
        for q in gen.intr_write_programs("intr-write-%s" % kname, gen.K(kname), CS[kname]):
            q.pop("crash", None)
            q["cfg"] = {k: v for k, v in q["cfg"].items() if k != "wlog"}
            iw.append(q)
    res.append(("io-intr-write", core.campaign("io-intr-write", iw, wd)))
    # a root directory that ends inside a sector fills up next to a file in the first data clusters
    res.append(("io-root-tail", core.campaign("io-root-tail", [gen.root_tail_program(rng, "root-tail-%d" % i) for i in range(scale(3, 12))], wd)))
    # a device call of a growing write fails, the write is repeated, other files grow: no chain may lead into a free cluster
    af = [gen.append_fault_program(rng, "append-fault-%d" % i, gen.K(["K1b", "K2", "K5", "K3"][i % 4]), CS[["K1b", "K2", "K5", "K3"][i % 4]]) for i in range(scale(40, 400))]
    res.append(("io-append-fault", core.campaign("io-append-fault", af, wd)))
    # design level: the cursor machine of file.rs (FileB) model-checked, every transition of its state graph replayed on the code
    mc, fprogs = mc_file_b(wd, rng_for("C02", 31))
    res.append(("mc-fileb", core.campaign("mc-fileb", fprogs, wd, n_shards=12)))
    mc["impl_model_conformance"] = fileb_drift("fileb-drift", fprogs, wd)
    if mc["impl_model_conformance"]["tool_errors"]:
        raise core.ToolError("FileB conformance replay failed:\n" + mc["impl_model_conformance"]["tool_errors"][0])
    mc["impl_model_conformance"].pop("tool_errors")
    if mc["impl_model_conformance"]["drift"]:
        print("NOTE: FileB no longer describes the code on %d of %d compared calls (model drift, not a violation): %s"
              % (mc["impl_model_conformance"]["drift"], mc["impl_model_conformance"]["compared"], mc["impl_model_conformance"]["drift_samples"][:2]))
    core.finish("C02", LEVEL, res, mc, t0,
                "(0) TLC model-checks the file cursor machine (FileB: read / write / seek / truncate / flush / reopen as file.rs codes them, over a "
                "5-6 cluster table fragmented by a second file) against the byte-array reference: representation invariant of the cursor, chain "
                "length = ceil(size / cluster), content = reference, results allowed by the reference; every transition of the explored graph is "
                "replayed on the library (quick: a sample) with the model's predicted result / table / entries compared; (1) random and boundary (k*cluster-1, k*cluster, k*cluster+1) seek/read/write/truncate/flush/reopen programs on 1-3 interleaved files; "
                "TLC evaluates the byte-array model on every event",
                ASSUME_TRACE, extra_prefixes=("C00.", "C03.link_free"))


def c03():
    t0 = time.time()
    wd = workdir("C03")
    names = gen.NAMES_ASCII + gen.NAMES_UNI + gen.NAMES_EDGE
    res = []
    res.append(("ns", core.campaign("ns", fam_ns("C03", ["K1", "K1b", "K2", "K5"], scale(25, 250), 40, names), wd)))
    res.append(("io", core.campaign("io", fam_io("C03", ["K1b", "K2", "K3"], scale(15, 150), 50), wd)))
    res.append(("fill", core.campaign("fill", fam_fill("C03", ["K1", "K1b", "K2"], scale(6, 60)), wd)))
    res.append(("regress", core.campaign("regress", regress_programs(), wd)))
    # the highest cluster numbers of the largest FAT12 / FAT16 volumes (values just below the reserved range of the table width)
    rng = rng_for("C03", 21)
    top = []
    for i in range(scale(6, 60)):
        vol, cs = gen.top_clusters_volume(rng, [12, 16][i % 2])
        top.append(gen.fill_program(rng, "top-fill-%d" % i, {"vol": vol}, cs, rounds=2, chunk_clusters=(1, 2, 3), use_dirs=(i % 3 == 0)))
    res.append(("top-clusters", core.campaign("top-clusters", top, wd)))
    af = [gen.append_fault_program(rng, "append-fault-%d" % i, gen.K(["K1b", "K2", "K5", "K3"][i % 4]), CS[["K1b", "K2", "K5", "K3"][i % 4]]) for i in range(scale(24, 240))]
    res.append(("append-fault", core.campaign("append-fault", af, wd)))
    high = [gen.foreign_high_program(rng, "c03-high-%d" % i, rewrite=0.5) for i in range(scale(6, 60))]
    res.append(("foreign-high", core.campaign("foreign-high", high, wd)))
    cf = [gen.clone_flush_program(rng, "clone-flush-%d" % i, gen.K(["K1b", "K2", "K5"][i % 3]), CS[["K1b", "K2", "K5"][i % 3]]) for i in range(scale(18, 180))]
    res.append(("clone-flush", core.campaign("clone-flush", cf, wd)))
    mc = mc_layer_b(wd, deep=True)
    mc["TableOrder"] = mc_table_order(wd)
    mc["states"] += mc["TableOrder"]["states"]
    mc["distinct"] += mc["TableOrder"]["distinct"]
    core.finish("C03", LEVEL, res, mc, t0,
                "namespace, file-I/O and fill-to-full programs; the structural invariants (Fat/DirSlots/FatFsA!StructViol) are evaluated by TLC on the raw "
                "image after every single call",
                ASSUME_TRACE)


def c04():
    t0 = time.time()
    wd = workdir("C04")
    names = gen.NAMES_ASCII + gen.NAMES_UNI + gen.NAMES_EDGE
    res = []
    res.append(("ns", core.campaign("ns", fam_ns("C04", ["K1b", "K2", "K3", "K5"], scale(20, 200), 40, names), wd)))
    res.append(("io", core.campaign("io", fam_io("C04", ["K1b", "K2", "K4", "K5"], scale(15, 150), 50), wd)))
    # stamps that do not change: a clock on an even second with no milliseconds, access-date updating on (a read stamps today's date again)
    rng = rng_for("C04", 5)
    same = []
    for p in fam_io("C04", ["K1b", "K2", "K5"], scale(10, 100), 40, salt=5):
        p["cfg"] = dict(p["cfg"], atime=(rng.random() < 0.6))
        p["ops"].insert(0, {"op": "clock", "t": [2020, 6, 15, 12, 30, 30, 0]})
        p["id"] += "-same"
        same.append(p)
    res.append(("same-stamps", core.campaign("same-stamps", same, wd)))
    # volumes with exactly the largest FAT12 / smallest FAT16 / largest FAT16 / smallest FAT32 cluster count (the width is a function of the
    # count alone): the independent decoder and the library must read the same table
    bnd = []
    for i in range(scale(3, 30)):
        for ft, n in ((12, 4084), (16, 4085), (16, 65524), (32, 65525)):
            vol, cs = small_foreign(rng, ft, n=n)
            bnd.append(gen.io_program(rng, "bnd-io-%d-%d" % (n, i), {"vol": vol}, cs, 30))
            vol, cs = small_foreign(rng, ft, n=n)
            bnd.append(gen.ns_program(rng, "bnd-ns-%d-%d" % (n, i), {"vol": vol}, 25, gen.NAMES_ASCII))
    res.append(("boundary-counts", core.campaign("boundary-counts", bnd, wd)))
    top = []
    for i in range(scale(6, 60)):
        vol, cs = gen.top_clusters_volume(rng, [12, 16][i % 2])
        top.append(gen.io_program(rng, "top-io-%d" % i, {"vol": vol}, cs, 35, n_files=3, max_clusters=4))
    res.append(("top-clusters", core.campaign("top-clusters", top, wd)))
    # a transient storage error in the flush that should store the entry, then a good flush / close: the medium then says what the session saw
    ff = [gen.flush_fault_io_program(rng, "flush-fault-%d" % i, gen.K(["K1b", "K2", "K5"][i % 3]), CS[["K1b", "K2", "K5"][i % 3]]) for i in range(scale(24, 240))]
    res.append(("flush-fault", core.campaign("flush-fault", ff, wd)))
    # a FAT32 tree above cluster 65535 (chains beginning at 65536 / 131072 among them): files emptied and rewritten in low clusters, moves
    high = [gen.foreign_high_program(rng, "c04-high-%d" % i, rewrite=0.8) for i in range(scale(8, 80))]
    res.append(("foreign-high", core.campaign("foreign-high", high, wd)))
    core.finish("C04", LEVEL, res, None, t0,
                "after every call a clone of the image is mounted afresh and listed/read through the library, and the raw bytes are decoded independently; "
                "both must equal the model tree (names, kinds, sizes, contents, stamps); extents are read straight from the device",
                ASSUME_TRACE)


def c05():
    t0 = time.time()
    wd = workdir("C05")
    res = []
    res.append(("fill", core.campaign("fill", fam_fill("C05", ["K1", "K1b", "K2"], half(12, 120)), wd)))
    res.append(("ns", core.campaign("ns", fam_ns("C05", ["K1", "K5"], half(15, 150), 50, stats_p=0.10), wd)))
    res.append(("io", core.campaign("io", fam_io("C05", ["K1b", "K5"], half(10, 100), 50), wd)))
    rng = rng_for("C05", 7)
    sess = [gen.first_mutation_program(rng, "c05-first-%s-%d" % (k, i), gen.K(k), CS[k]) for k in ("K5", "K5b", "K1b") for i in range(half(4, 40))]
    sess += [gen.with_remounts(p, rng, 3) for p in fam_fill("C05", ["K5"], half(4, 40), salt=3) + fam_ns("C05", ["K5", "K5b"], half(6, 60), 50, salt=3)]
    for i in range(half(6, 60)):
        vol, cs = gen.end_of_table_volume(rng, rng.choice([12, 16, 32]))
        sess.append(gen.fill_program(rng, "c05-eot-%d" % i, {"vol": vol}, cs, rounds=1, chunk_clusters=(1, 2), use_dirs=False))
    res.append(("sessions", core.campaign("sessions", sess, wd)))
    # FAT16 / FAT32 volumes with only a handful of free clusters: out-of-space answers of every table width
    nf = []
    for i in range(half(6, 60)):
        vol, cs = gen.nearly_full_volume(rng, [16, 32, 12][i % 3])
        nf.append(gen.fill_program(rng, "c05-nearfull-%d" % i, {"vol": vol}, cs, rounds=2, chunk_clusters=(1, 3), use_dirs=(i % 2 == 0)))
    res.append(("nearly-full", core.campaign("nearly-full", nf, wd)))
    # volumes written by other implementations: reserved high bits in used and in free FAT32 entries, no usable FSInfo count (or dirty),
    # so that the count comes from a scan of the table
    frg = []
    for i in range(half(10, 100)):
        vol, cs = small_foreign(rng, 32)
        vol["hi"] = "pattern"
        vol["free_hi"] = rng.choice([0xC, 0xF, 0x1])
        vol["fsinfo"] = {"free": rng.choice(["unknown", "exact", 70000]), "next": rng.choice(["unknown", 2])}
        vol["status"] = rng.choice([0, 0, 1])
        vol["eoc"] = [0x0FFFFFFF, 0x0FFFFFF8]
        vol["tree"] = [{"kind": "f", "name": "foreign %d.bin" % k, "sfn": "FORE~%d  BIN" % k, "size": (k + 1) * cs + 3, "pat": k + 1} for k in range(4)]
        ops = [{"op": "stats"}]
        for k in range(4):
            ops += [{"op": "remove", "at": "", "path": "foreign %d.bin" % k}, {"op": "stats"}] if k % 2 == 0 else \
                   [{"op": "open_file", "at": "", "path": "FOREIGN %d.BIN" % k, "as": "t%d" % k}, {"op": "seek", "h": "t%d" % k, "from": "start", "off": rng.choice([0, 1, cs])},
                    {"op": "truncate", "h": "t%d" % k}, {"op": "close", "h": "t%d" % k}, {"op": "stats"}]
        ops += [{"op": "create_file", "at": "", "path": "new.bin", "as": "n"}, {"op": "write_all", "h": "n", "pat": 7, "len": 3 * cs}, {"op": "close", "h": "n"},
                {"op": "stats"}, {"op": "unmount"}, {"op": "stats"}, {"op": "unmount"}]
        frg.append({"id": "c05-foreign-%d" % i, "cfg": {"vol": vol}, "ops": ops, "origin": "foreign-count"})
    res.append(("foreign", core.campaign("foreign", frg, wd)))
    # a FAT32 tree that lives above cluster 65535: files emptied, removed, directories moved; statistics after each step
    high = [gen.foreign_high_program(rng, "c05-high-%d" % i) for i in range(half(6, 60))]
    res.append(("foreign-high", core.campaign("foreign-high", high, wd)))
    # truncation at and around cluster boundaries: the clusters behind the cut come back (a chain longer than the size needs is space
    # that was not given back: C03.chain_size counts here)
    res.append(("io", core.campaign("io", fam_io("C05", ["K1b", "K2", "K5"], half(10, 100), 50, salt=3), wd)))
    # an unmount that fails (one device call, or every call from some point on), then the volume is mounted again
    uf = [gen.unmount_fault_program(rng, "unmount-fault-%d" % i, gen.K(["K5", "K5b", "K5", "K2"][i % 4]), CS[["K5", "K5b", "K5", "K2"][i % 4]]) for i in range(half(40, 400))]
    res.append(("unmount-fault", core.campaign("unmount-fault", uf, wd)))
    core.finish("C05", LEVEL, res, mc_layer_b(wd), t0,
                "fill-to-full / delete-all cycles on tiny volumes plus mixed programs with statistics probes; TLC compares the reported count with the "
                "table of the raw image and judges every NotEnoughSpace against the pre-state",
                ASSUME_TRACE, extra_cov={"inductive_invariant": mc_fat_inductive(wd)},
                # "removing or truncating gives back all of its clusters": a cluster that stays allocated without an owner is C05's too
                extra_prefixes=("C00.", "C03.lost", "C03.chain_size"))


def status_off(kname):
    return 0x41 if kname.startswith("K5") else 0x25


def fam_ro(prop, kset, n_prog, n_ops, salt=0):
    rng = rng_for(prop, 300 + salt)
    progs = []
    for kname in kset:
        cfg = gen.K(kname)
        for i in range(n_prog):
            variant = i % 6
            poke = None
            end_setup = "unmount"
            if variant == 1:
                end_setup = "abandon"  # volume is dirty at the next mount
            elif variant == 2 and kname.startswith("K5"):
                # FSInfo free count unknown, or stale / foreign: larger than the volume
                poke = [[512 + 488, rng.choice([[255, 255, 255, 255], [0, 0, 0, 1], [255, 255, 255, 15], [0xBA, 5, 1, 0]])]]
            elif variant == 3 and kname.startswith("K5"):
                poke = [[512 + 492, [255, 255, 255, 255]]]  # FSInfo next-free hint unknown
            elif variant == 4:
                poke = [[status_off(kname), [rng.choice([1, 2, 3, 0x80, 0xF0, 0x41, 0x04])]]]  # dirty / io-error / other bits set by someone else
            elif i % 12 == 5 and kname[:2] in ("K3", "K4", "K5"):
                # the clean-shutdown / no-error bits other implementations keep in table entry 1, cleared by someone else
                poke = [{"fat1_and": rng.choice([0xF7FFFFFF, 0xFBFFFFFF, 0xF3FFFFFF] if kname.startswith("K5") else [0x7FFF, 0xBFFF, 0x3FFF])}]
            progs.append(gen.ro_program(rng, "ro-%s-%d" % (kname, i), dict(cfg, optord=i % 5), CS[kname], n_ops, end_setup=end_setup, poke=poke,
                                        end=rng.choice(["unmount", "dropfs"]), no_stats=(i % 12 >= 6)))
    return progs


def c13():
    t0 = time.time()
    wd = workdir("C13")
    res = []
    res.append(("ro", core.campaign("ro", fam_ro("C13", ["K1b", "K3", "K5"], scale(36, 360), 40), wd)))
    # FAT32 volumes whose information sector holds the valid counts 0 and 1 (full, one cluster free)
    rng = rng_for("C13", 5)
    res.append(("ro-full", core.campaign("ro-full", [gen.ro_full_program(rng, "ro-full-%d" % i) for i in range(scale(12, 120))], wd)))
    # FAT32 with sectors larger than 512 bytes, free count unknown / not trusted: the one permitted write goes to the information SECTOR
    big = []
    for i in range(scale(9, 90)):
        bps = [1024, 2048, 4096][i % 3]
        cfg = {"vol": gen.fmt(67000 * bps, bps=bps, bpc=bps, fats=1 + i % 2, ft=32), "optord": i % 5}
        unknown = i % 2 == 0
        big.append(gen.ro_program(rng, "ro-bigsec-%d" % i, cfg, bps, 25, end_setup="unmount" if unknown else "abandon",
                                  poke=[[bps + 488, [255, 255, 255, 255]]] if unknown else None, end=rng.choice(["unmount", "dropfs"])))
    res.append(("ro-bigsector", core.campaign("ro-bigsector", big, wd)))
    # volumes written by someone else: entries with the read-only / hidden / system attributes, read on a later day
    res.append(("ro-foreign", core.campaign("ro-foreign", [gen.ro_foreign_program(rng, "ro-foreign-%d" % i, [12, 16, 32][i % 3]) for i in range(scale(18, 180))], wd)))
    core.finish("C13", LEVEL, res, None, t0,
                "populated FAT12/16/32 volumes (clean, abandoned-dirty, FSInfo count/hint unknown, foreign status bits), then sessions of non-mutating "
                "calls only; TLC checks that no device write is issued (FSInfo exemption after statistics without a usable count)",
                ASSUME_TRACE)


def with_status(cfg, kname, byte):
    c = json.loads(json.dumps(cfg))
    c["vol"]["patch"] = [[status_off(kname), [byte]]]
    return c


def c12():
    t0 = time.time()
    wd = workdir("C12")
    rng = rng_for("C12", 1)
    names = gen.NAMES_ASCII
    progs = []
    for kname in ["K1b", "K2", "K5"]:
        for i in range(scale(24, 240)):
            # status byte found at mount: clean, dirty, io-error, reserved high bits
            st = [0, 0, 1, 2, 0xF0, 0xF1, 0x80, 3][i % 8]
            cfg = with_status(gen.K(kname), kname, st) if st else gen.K(kname)
            if i % 7 == 3:
                # (a boot sector without the 0x29 extended signature, as old or other formatters write it: the status byte is still there)
                cfg = json.loads(json.dumps(cfg))
                cfg["vol"].setdefault("patch", []).append([66 if kname.startswith("K5") else 38, [rng.choice([0x28, 0x00])]])
            if kname == "K5" and i % 5 == 4:
                # (FAT32: table entry 1 carries another implementation's clean-shutdown / no-error bits, cleared by it)
                cfg = json.loads(json.dumps(cfg))
                cfg["vol"].setdefault("patch", []).append({"fat1_and": rng.choice([0xF7FFFFFF, 0xFBFFFFFF, 0xF3FFFFFF])})
            if i % 3 == 0:
                p = gen.io_program(rng, "st-io-%s-%d" % (kname, i), cfg, CS[kname], 30, n_files=2)
            else:
                p = gen.ns_program(rng, "st-ns-%s-%d" % (kname, i), cfg, 30, names)
            # end some sessions by dropping the file system or abandoning it, and continue afterwards
            k = rng.randrange(5, len(p["ops"]))
            p["ops"].insert(k, {"op": rng.choice(["unmount", "dropfs", "abandon"])})
            # status and statistics queries in mid-session (after changes, before the session ends): they only look
            for _q in range(rng.randrange(0, 4)):
                p["ops"].insert(rng.randrange(3, len(p["ops"])), {"op": rng.choice(["status", "status", "stats", "info"])})
            progs.append(p)
    res = [("status", core.campaign("status", progs, wd))]
    res.append(("ro", core.campaign("ro", fam_ro("C12", ["K1b", "K5"], scale(10, 100), 25), wd)))
    first = [gen.first_mutation_program(rng, "c12-first-%s-%d" % (k, i), gen.K(k), CS[k], end=rng.choice(["unmount", "abandon", "dropfs"]))
             for k in ("K1b", "K3", "K5") for i in range(scale(4, 40))]
    res.append(("first-mutation", core.campaign("first-mutation", first, wd)))
    # a transient storage error during the first change of a session (one of its first device calls), then more changes
    df = [gen.dirty_fault_program(rng, "dirty-fault-%s-%d" % (k, i), gen.K(k), CS[k]) for k in ("K1b", "K3", "K5") for i in range(scale(8, 80))]
    res.append(("dirty-fault", core.campaign("dirty-fault", df, wd)))
    core.finish("C12", LEVEL, res, None, t0,
                "namespace and file-I/O histories on volumes whose status byte at mount is clean/dirty/io-error/has reserved bits; after every call TLC "
                "checks dirty-bit bracketing of structural changes (computed from raw-image diffs), bits never cleared, restoration at unmount/drop, and "
                "that a fresh mount of the image at that point reports dirty",
                ASSUME_TRACE)


def c09():
    t0 = time.time()
    wd = workdir("C09")
    rng = rng_for("C09", 0)
    progs = []
    ks = ["K1b", "K3", "K5"] if core.tier() == "quick" else ["K1", "K1b", "K2", "K3", "K4b", "K5", "K5b"]
    for kname in ks:
        progs.append(gen.fault_program("flt-%s" % kname, gen.K(kname), CS[kname]))
    for kname in ["K1", "K1b"]:
        progs.append(gen.fault_wrap_program("flt-wrap-%s" % kname, gen.K(kname), CS[kname]))
    # the same fixed history mounted with the non-default option strict(false) (lenient paths must not swallow storage errors either)
    for kname in (["K5"] if core.tier() == "quick" else ["K1b", "K3", "K5"]):
        progs.append(gen.fault_program("flt-%sL" % kname, dict(gen.K(kname), strict=False), CS[kname]))
    # plus a few random histories (short, so that the enumeration stays affordable)
    for i in range(scale(3, 30)):
        kname = rng.choice(["K1b", "K2", "K5"])
        p = gen.ns_program(rng, "flt-ns-%s-%d" % (kname, i), gen.K(kname), 14, gen.NAMES_ASCII[:5])
        progs.append(p)
        p = gen.io_program(rng, "flt-io-%s-%d" % (kname, i), gen.K(kname), CS[kname], 14, n_files=1)
        progs.append(p)
    parts = []
    for p in progs:
        p["cfg"] = dict(p["cfg"], budget=20000)
        m = 6 if p["id"].count("-") == 1 else 2      # the long fixed history is split finer
        for j in range(m):
            q = dict(p)
            q["fault_part"] = [j, m]
            q["id"] = "%s.%d" % (p["id"], j)
            parts.append(q)
    res = [("faults", core.campaign("faults", parts, wd, spec="TraceFault", mode="faults", n_shards=min(len(parts), 14), jvms=6))]
    # the same enumeration with the device behind the library's std::io adapter (the injected error travels through StdIoWrapper and the
    # std::io::Error conversions)
    std = [dict(q, id=q["id"] + "-std") for q in parts if q["id"].startswith(("flt-K1b.", "flt-K5.") if core.tier() == "quick" else "flt-")]
    res.append(("faults-stdio", core.campaign("faults-stdio", std, wd, feat="refstd", spec="TraceFault", mode="faults", n_shards=min(len(std), 14), jvms=6)))
    core.finish("C09", "fault_enumeration", res, mc_device(wd), t0,
                "for every operation of representative and random histories on FAT12/16/32, every position k of its device-call sequence is failed once "
                "(exhaustive single-fault enumeration, device-call budget for non-termination); TLC judges each outcome with TraceFault; distinct = "
                "(operation, outcome, failing call kind, in-destructor) shapes",
                ["the drop-depth hook attributes device calls issued from File/FileSystem destructors correctly",
                 "single faults only; a fault is an error return of one device call (no short transfers, no silent corruption)"])


def c14():
    t0 = time.time()
    wd = workdir("C14")
    rng = rng_for("C14", 0)
    progs = []
    for kname in ["K1b", "K2", "K5"] + (["K3", "K4b"] if core.tier() == "thorough" else []):
        for i in range(half(12, 120)):
            progs.append(gen.crash_program(rng, "crash-%s-%d" % (kname, i), gen.K(kname), CS[kname]))
    for kname in ["K1", "K1b", "K3"]:
        for i in range(half(4, 40)):
            progs.append(gen.crash_reuse_program(rng, "crash-reuse-%s-%d" % (kname, i), gen.K(kname), CS[kname]))
    # one crash program in three runs under a clock that stands still on an even second (a coarse or absent real-time clock): the stamps a
    # write sets are then the ones already stored
    for j, p in enumerate(progs):
        if j % 3 == 2:
            p["ops"].insert(0, {"op": "clock", "t": [2020, 6, 15, 12, 30, 30, 0]})
            if "fault" in p:
                p["fault"] = dict(p["fault"], at=p["fault"]["at"] + 1)
    for i in range(half(12, 120)):
        kname = ["K1b", "K2", "K5"][i % 3]
        progs.append(gen.patch_header_crash_program(rng, "patch-header-%s-%d" % (kname, i), gen.K(kname), CS[kname]))
    # every device call of a multi-cluster write interrupted once (quick: two configurations)
    for kname in (["K1b", "K5"] if core.tier() == "quick" else ["K1b", "K2", "K3", "K5"]):
        progs += gen.intr_write_programs("intr-write-%s" % kname, gen.K(kname), CS[kname])
    # one crash program in four runs on a storage that transfers fewer bytes than asked (legal for Write: every piece must be handed over)
    for j, p in enumerate(progs):
        if j % 4 == 1 and "short" not in p["cfg"]:
            p["cfg"] = dict(p["cfg"], short=rng.randrange(1, 1 << 30))
    res = [("crash", core.campaign("crash", progs, wd))]
    # the same kind of histories with the device handed to the library as a std::io object behind StdIoWrapper (what most users do)
    std = [gen.crash_program(rng, "crash-std-%s-%d" % (k, i), gen.K(k), CS[k]) for k in ("K1b", "K5") for i in range(half(10, 100))]
    std += gen.intr_write_programs("intr-write-std-K1b", gen.K("K1b"), CS["K1b"])
    res.append(("crash-stdio", core.campaign("crash-stdio", std, wd, feat="refstd")))
    core.finish("C14", "fault_enumeration", res, mc_durable(wd), t0,
                "histories with flush/close points followed by unrelated activity; for every prefix of the device write log after the first flush the "
                "image left by a power cut is mounted afresh; TLC (TraceFatFs crash events) requires every file flushed before that point and not "
                "modified since to be found with exactly the flushed content; distinct = (op, result) shapes incl. crash events",
                ASSUME_TRACE + ["power cut = loss of a suffix of the device write sequence (write-back cache honouring flush; no reordering, no torn writes)"])


def c06():
    t0 = time.time()
    wd = workdir("C06")
    rng = rng_for("C06", 0)
    reqs = gen.format_requests(rng, quick=(core.tier() == "quick"))
    res = [("formats", core.campaign("formats", reqs, wd, spec="TraceFormat", mode="formats", n_shards=14, jvms=8))]
    # every sector count for default options through the boot-sector hook: quick 0..4M (covers the FAT12/16/32 switch points),
    # thorough the whole 32-bit range
    top = (1 << 22) if core.tier() == "quick" else (1 << 32) - 1
    nchunk = 8 if core.tier() == "quick" else 112
    step = (top + nchunk) // nchunk
    ranges = [(i * step, min(top, (i + 1) * step - 1)) for i in range(nchunk) if i * step <= top]
    sw = core.sweep_campaign("sweep", ranges, wd)
    res.append(("sweep", sw))
    exhaustive = core.tier() == "thorough"
    # design level: the layout computation as the code performs it (FormatImpl) on a grid of requests around every threshold
    r = core.mc_run("MC_FormatImpl", "SPECIFICATION Spec\nCONSTANT Deep = %s\nCONSTANT LegacyF = {}\nINVARIANT ValidInv\nINVARIANT DefaultInv\nCHECK_DEADLOCK FALSE\n" % ("TRUE" if core.tier() == "thorough" else "FALSE"),
                    wd, "formatimpl", workers=8, xmx="8g", timeout=6000)
    if not r["ok"]:
        raise core.ToolError("MC_FormatImpl failed:\n" + r["out_tail"])
    drift = [t for t in res[0][1].notes if str(t[0]).startswith("B.")]
    mc = {"spec": "FormatImpl", "states": r["states"], "distinct": r["distinct"], "requests_enumerated": r["distinct"], "wall": r["wall"], "ok": True,
          "invariants": ["ValidInv: an accepted request gets a coherent layout of the requested width whose table holds every cluster", "DefaultInv: defaults from 42 sectors succeed"],
          "impl_model_conformance": {"formats": res[0][1].events, "drift": len(drift), "drift_samples": [list(t) for t in drift[:4]]}}
    if drift:
        print("NOTE: FormatImpl no longer describes the code on %d formats (model drift, not a violation): %s" % (len(drift), drift[:3]))
    core.finish("C06", LEVEL, res, mc, t0,
                "format requests: default options at every sector count 0..129 and at every threshold of the sizing heuristics and FAT-type limits "
                "(+-0,1,2 sectors, +- one cluster), an option grid (sector 512..32768, cluster none/512..1M, 1-2 FATs, root entries, forced widths), exact "
                "cluster-count limits, labels/ids/media, and a random grid; each formatted image is decoded independently and mounted, TLC evaluates "
                "Format!ValidFormatted in exact (limb) arithmetic; distinct = (outcome, error kind) shapes",
                ["the independent decoder and BPB parse", "huge formats (> 64 GiB) are sampled, not exhaustive, in the quick tier",
                 "sweep: each clause is monotone in the sector count for a fixed layout, so both ends of a run of equal layout decide the run"],
                extra_cov={"sweep_sector_counts": sw.programs, "sweep_runs": sw.events, "exhaustive": exhaustive,
                           "exhaustive_note": "default options: every sector count in 0..%d formatted through the boot-sector hook" % top})


def c07():
    t0 = time.time()
    wd = workdir("C07")
    rng = rng_for("C07", 0)
    bases = [("K1b", gen.K("K1b")["vol"]), ("K3", gen.K("K3")["vol"]), ("K5", gen.K("K5")["vol"])]
    specs = gen.mount_specs(rng, bases, quick=(core.tier() == "quick"))
    res = [("mounts", core.campaign("mounts", specs, wd, spec="TraceMount", mode="mounts", n_shards=14, jvms=8))]
    # design level: the acceptance test as the code performs it (MountImpl) against Geometry!Coherent on a grid of boundary values of every field
    deep = "TRUE" if core.tier() == "thorough" else "FALSE"
    r = core.mc_run("MC_MountImpl", "SPECIFICATION Spec\nCONSTANT Deep = %s\nCONSTANT LegacyM = {}\nINVARIANT SoundInv\nINVARIANT ExactInv\nCHECK_DEADLOCK FALSE\n" % deep, wd, "mountimpl",
                    workers=8, xmx="12g", timeout=7000)
    if not r["ok"]:
        raise core.ToolError("MC_MountImpl failed:\n" + r["out_tail"])
    drift = [t for t in res[0][1].notes if str(t[0]).startswith("B.")]
    mc = {"spec": "MountImpl", "states": r["states"], "distinct": r["distinct"], "bpbs_enumerated": r["distinct"], "invariants": ["Sound: ImplAccept => Coherent", "Exact: ImplAccept <=> Coherent /\\ Extra"],
          "wall": r["wall"], "ok": True,
          "impl_model_conformance": {"compared": res[0][1].events, "drift": len(drift), "drift_samples": [list(t) for t in drift[:3]]}}
    if drift:
        print("NOTE: MountImpl no longer describes the code on %d mounts (model drift, not a violation): %s" % (len(drift), drift[:2]))
    core.finish("C07", LEVEL, res, mc, t0,
                "mount attempts on FAT12/16/32 images with mutated boot-sector and FSInfo fields: every value of every 8-bit field, 16-bit fields strided "
                "(quick) or exhaustively (thorough), 32-bit fields at all 2^k, 2^k+-1, thresholds and random values, random 2-4 field combinations, "
                "truncated devices, strict and non-strict; TLC evaluates Geometry!Coherent and the derived values in exact arithmetic on every outcome",
                ["the independent BPB parse in the harness", "absence of panics is established for the enumerated inputs only"])


def fold_table():
    core.build("ref")
    with open(os.path.join(core.WORK, "fold.json")) as f:
        return json.load(f)


def c15():
    t0 = time.time()
    wd = workdir("C15")
    rng = rng_for("C15", 0)
    batches = gen.name_sets(rng, fold_table(), quick=(core.tier() == "quick"))
    cfg = dict(gen.K("K2"), obs={"raw": True, "rv": True, "sv": True})
    batches = batches + gen.overlong_fold_batches() + gen.alias_fold_batches()
    progs = [gen.name_program("names-%d" % i, cfg, names, lookups) for i, (names, lookups) in enumerate(batches)]
    res = [("names", core.campaign("names", progs, wd, n_shards=14))]
    # names stay what they are while their neighbours come and go (gaps of deleted slots reused by longer and shorter names)
    gaps = [gen.gap_program(rng, "gaps-%s-%d" % (k, i), dict(gen.K(k), obs={"raw": True, "rv": True, "sv": True})) for k in ("K1b", "K2", "K5") for i in range(scale(8, 80))]
    res.append(("gaps", core.campaign("gaps", gaps, wd)))
    core.finish("C15", LEVEL, res, None, t0,
                "names: every ASCII character and BMP code points (quick: range boundaries + stride 97; thorough: all 63 488) in first, middle and last "
                "position, astral samples, lengths 0..300 with 1-4 byte characters, every character whose upper-case expansion differs paired with its folded "
                "partner and near misses, alias lookups, renames to invalid names; TLC (Names!NameErrors, fold keys from the std table) judges every result, "
                "the stored name and every lookup",
                ASSUME_TRACE + ["the upper-case table emitted from Rust std is the fold the `unicode` feature documents"],
                # "lookups match it, and its short alias, and match nothing else": two entries of one directory answering to the same long
                # or short name make every lookup of that name ambiguous
                extra_prefixes=("C00.", "C03.dup_long", "C03.dup_short", "C03.dup_cross", "C16.unique"))


def c16():
    t0 = time.time()
    wd = workdir("C16")
    rng = rng_for("C16", 0)
    progs = []
    n = 0
    for kname in ["K3", "K5"]:
        cfg = gen.K(kname)
        pops = [10, 30, 70] if core.tier() == "quick" else [10, 40, 120, 300, 500]
        for pop in pops:
            sets = [
                ["longfilename-%d.txt" % i for i in range(pop)],
                ["Long File Name %d.data" % i for i in range(pop)] + ["LONGFI~%d.DAT" % i for i in range(1, 6)],
                gen.colliding_names(rng, min(pop, 40)),
                ["%s.txt" % ("x" * k) for k in range(1, min(pop, 200))],
                ["\u00e9t\u00e9-%d.doc" % i for i in range(pop // 2)] + ["a b.c d-%d" % i for i in range(pop // 2)],
                ["FOO~1.TXT", "foo~1.txt", "foooooooo.txt", "foooooooo1.txt", "FOOOOO~1.TXT", "fo0123~1.txt", ".hidden", "..x", "a+b,c;d=e[f].g h"],
                # every character that is legal in a long name only, early in the base name and in the extension
                [("d%sta %d.t%st" % (ch, i, ch)) for ch in "+,;=[] ." for i in range(2)] + ["[x].txt", "a]b.c", "x[1]", "=.=", "+1.+"],
                # long names that contain the tilde themselves, in front of where the numeric tail goes
                ["~$Report Q%d.docx" % i for i in range(min(pop, 12))] + ["my~notes chapter %d.txt" % i for i in range(min(pop, 12))]
                + ["a~b~c long name %d.txt" % i for i in range(6)] + ["~~~~~~~~~ %d.t" % i for i in range(6)] + ["x~1 y %d.dat" % i for i in range(6)],
                # a multi-byte first character directly in front of the dot, and nothing but multi-byte characters in the base
                ["\u017c.txt", "\u65e5\u672c.txt", "\u00e9.a", "\u00fc.x.y", "\u65e5.\u672c", "\u00df.", "\u0142\u00f3d\u017a.pl", "\u20ac.eur"] + ["\u017c%d.txt" % i for i in range(min(pop, 6))],
                # names whose 8.3 base is empty (only spaces and dots before the extension): the alias is ~N.EXT
                [b + e for e in (".txt", ".a") for b in (" ", "  ", "   ", ". ", " .", ".. ", " . ", "    ")][:max(6, min(pop, 16))] + [" x", "  x", ".x", "..x"],
            ]
            for names in sets:
                n += 1
                progs.append(gen.alias_program(rng, "alias-%s-%d" % (kname, n), cfg, names))
    # names whose 16-bit hash is the largest value (and the one before): 13 + 9k collisions make the generator step its hash k times, past 0xFFFF
    for j, (target, cnt) in enumerate([(0xFFFF, 15), (0xFFFE, 24), (0xFFFF, 24), (0x695D, 9), (0x9999, 12), (0x0A9F, 8)]):
        progs.append(gen.alias_program(rng, "alias-wrap-%d" % j, gen.K("K3"), gen.names_with_hash(rng, cnt, target), removals=0.0))
    res = [("alias", core.campaign("alias", progs, wd, n_shards=14))]
    moves = [gen.alias_move_program(rng, "alias-move-%s-%d" % (k, i), gen.K(k), n=rng.choice([4, 8, 12])) for k in ("K2", "K3", "K5") for i in range(scale(6, 60))]
    res.append(("alias-move", core.campaign("alias-move", moves, wd)))
    # one device call of a creation among colliding aliases fails (the scan reads among them), the program goes on
    af = [gen.alias_fault_program(rng, "alias-fault-%s-%d" % (k, i), gen.K(k)) for k in ("K2", "K3", "K5") for i in range(scale(16, 160))]
    res.append(("alias-fault", core.campaign("alias-fault", af, wd)))
    # design level: the generator as a state machine (AliasGen) model-checked; the directories around the wrap of the hash replayed on the code
    mc, aprogs = mc_alias_gen(wd, rng_for("C16", 41))
    res.append(("mc-aliasgen", core.campaign("mc-aliasgen", aprogs, wd, n_shards=8)))
    core.finish("C16", LEVEL, res, mc, t0,
                "(0) TLC model-checks the alias generator (AliasGen: scan, generate, next_iteration) for every directory content over small universes: "
                "the alias is not in the directory, the loop ends within HMAX iterations (liveness under fairness); the structured family of "
                "directories around the wrap of the 16-bit hash is replayed on the library and the alias it chose compared with the model's; "
                "(1) directories populated with names colliding on the 6-character alias form, on the 2-character+checksum form (names searched for equal 16-bit "
                "name checksum), user names that look like aliases, non-ASCII and dotted/spaced names, with removals in between; for every created entry TLC "
                "checks the alias is legal, unique in its directory and that every long-name slot carries its checksum",
                ASSUME_TRACE, extra_prefixes=("C00.", "C03.dup_short"))


def c18():
    t0 = time.time()
    wd = workdir("C18")
    rng = rng_for("C18", 0)
    vals = gen.stamp_values(rng, quick=(core.tier() == "quick"))
    rng.shuffle(vals)
    progs = []
    per = 12
    triples = [(vals[i], vals[(i * 7 + 3) % len(vals)], vals[(i * 13 + 5) % len(vals)]) for i in range(len(vals))]
    for i in range(0, len(triples), per):
        progs.append(gen.stamp_program(rng, "stamp-%d" % (i // per), gen.K("K1b") if (i // per) % 2 else gen.K("K5"), triples[i:i + per]))
    for i in range(scale(30, 300)):
        a, b, c = gen.near_stamps(rng, 12), gen.near_stamps(rng, 12), gen.near_stamps(rng, 12)
        progs.append(gen.stamp_program(rng, "near-%d" % i, gen.K("K1b") if i % 2 else gen.K("K5"), list(zip(a, b, c))))
    for i in range(scale(30, 300)):
        kname = rng.choice(["K1b", "K2", "K5"])
        progs.append(gen.clock_program(rng, "clock-%d" % i, gen.K(kname), CS[kname], 30, atime=(i % 2 == 0)))
    for i in range(scale(12, 120)):
        progs.append(gen.stamp_fault_program(rng, "stamp-fault-%d" % i, gen.K(["K1b", "K2", "K5"][i % 3])))
    # reads that do not start at the beginning of the file stamp the access date too (option on)
    for i in range(scale(9, 90)):
        kname = ["K1b", "K2", "K5"][i % 3]
        progs.append(gen.atime_seek_program(rng, "atime-seek-%d" % i, gen.K(kname), CS[kname]))
    # a write that fails on a full volume stores nothing and stamps nothing
    for i in range(scale(12, 120)):
        kname = ["K1", "K1b", "K2"][i % 3]
        progs.append(gen.stamp_full_program(rng, "stamp-full-%d" % i, gen.K(kname), CS[kname]))
    res = [("stamps", core.campaign("stamps", progs, wd, n_shards=14))]
    core.finish("C18", LEVEL, res, None, t0,
                "explicit stamps: every year, every (month, day), every (hour, second), every minute and a millisecond sweep against boundary values of the "
                "other fields (thorough: every (y,m,d)), set on a file, flushed/closed, read back through a fresh mount and from the raw entry; plus random "
                "histories under the harness clock (creation, write, read with access-date updating on/off, rename, truncate, other entries); TLC applies "
                "Stamps!Trunc10ms/Trunc2s/DateOf and the stamping rules",
                ASSUME_TRACE)


def fam_foreign(prop, n_per_ft, salt=0, n_ops=12):
    rng = rng_for(prop, 400 + salt)
    progs = []
    for ft in (12, 16, 32):
        for i in range(n_per_ft):
            vol, cs, oem = gen.foreign_volume(rng, ft, quick=(core.tier() == "quick"))
            progs.append(gen.foreign_program(rng, "foreign-%d-%d" % (ft, i), vol, cs, oem, n_ops=n_ops))
    for i in range(max(4, n_per_ft // 3)):
        progs.append(gen.foreign_high_program(rng, "foreign-high-%d" % i))
    # tables whose padding entries look free (zero), the last clusters used, the next-free hint at the end: the scan for a free cluster
    # runs into the end of the table
    for i in range(max(6, n_per_ft // 3)):
        vol, cs = gen.end_of_table_volume(rng, [32, 12, 16][i % 3])
        progs.append(gen.fill_program(rng, "foreign-eot-%d" % i, {"vol": vol}, cs, rounds=1, chunk_clusters=(1, 2), use_dirs=(i % 2 == 0)))
    return progs


def c08():
    t0 = time.time()
    wd = workdir("C08")
    res = [("foreign", core.campaign("foreign", fam_foreign("C08", scale(30, 400)), wd, n_shards=14))]
    core.finish("C08", LEVEL, res, None, t0,
                "volumes from the independent builder (all widths, sector 512-4096, 1-4 sectors per cluster, 1-3 FATs, mirroring on/off x active copy, "
                "16/32-bit sector counts, reserved areas, FSInfo/backup positions, root cluster != 2, descending/interleaved/random chains, every legal EOC "
                "value, FAT32 high nibbles in used and free entries, BAD marks, deleted slots and orphaned long-name runs, short-name-only entries with NT "
                "flags, 0x05 lead byte, OEM bytes, labels anywhere, all attribute bits, full clusters without END marker, slack sectors): TLC compares the "
                "library's listing and Abs(raw) with the builder's ground truth, then judges library mutations with the structural invariants and the "
                "frame clauses (FAT entries, slot digests, BAD marks, inactive copies, high nibbles)",
                ASSUME_TRACE + ["the image builder produces specification-valid volumes (checked: TLC evaluates the structural invariants on every built image, C08.valid_input)"],
                extra_prefixes=("C00.", "C03."))   # "modifying such a volume keeps it valid": the structural clauses are C08's on these volumes


def small_foreign(rng, ft=12, **kw):
    """small builder volume that can be filled to exhaustion"""
    bps = rng.choice([512, 1024])
    n = rng.randrange(24, 70) if ft == 12 else (4085 if ft == 16 else 65525)
    vol = {"kind": "builder", "ft": ft, "bps": bps, "spc": 1, "n": n, "nfats": rng.choice([1, 2, 3]), "pad": rng.choice(["zero", "eoc"]),
           "extra_fat_sectors": rng.choice([0, 1]), "rootn": 32 * (bps // 512), "tail": 4096, "rsvd": rng.choice([1, 3]) if ft != 32 else 32,
           "tree": [{"kind": "f", "name": "seed file.txt", "sfn": "SEED~1  TXT", "size": bps + 1, "pat": 9}]}
    if ft == 32:
        vol["hi"] = "pattern"
        vol["free_hi"] = rng.choice([0, 0xA])
        if vol["nfats"] > 1 and rng.random() < 0.5:
            vol["mirror"] = False
            vol["active"] = rng.randrange(vol["nfats"])
        elif rng.random() < 0.6:
            vol["stale_active"] = rng.randrange(1, 4)      # mirroring enabled: the active-copy nibble must be ignored
    vol.update(kw)
    return vol, bps


def c10():
    t0 = time.time()
    wd = workdir("C10")
    rng = rng_for("C10", 0)
    progs = fam_foreign("C10", scale(12, 150), n_ops=10)
    for i in range(scale(12, 120)):
        vol, cs = small_foreign(rng, 12)
        progs.append(gen.fill_program(rng, "c10-fill-%d" % i, {"vol": vol}, cs, rounds=2, use_dirs=(i % 2 == 0)))
    for i in range(scale(6, 60)):
        vol, cs = small_foreign(rng, 32)
        progs.append(gen.ns_program(rng, "c10-ns32-%d" % i, {"vol": vol}, 30, gen.NAMES_ASCII))
        vol, cs = small_foreign(rng, 16)
        progs.append(gen.io_program(rng, "c10-io16-%d" % i, {"vol": vol}, cs, 30))
    for i in range(scale(12, 120)):
        vol, cs = gen.end_of_table_volume(rng, [12, 16, 32][i % 3])
        progs.append(gen.fill_program(rng, "c10-eot-%d" % i, {"vol": vol}, cs, rounds=1, chunk_clusters=(1, 2), use_dirs=(i % 2 == 0)))
    res = [("copies", core.campaign("copies", progs, wd, n_shards=14))]
    own = fam_fill("C10", ["K1b", "K2"], scale(4, 40)) + fam_ns("C10", ["K5", "K5b", "K3"], scale(6, 60), 40)
    for i, p in enumerate(own):
        if i % 2 and p["cfg"]["vol"].get("size", 1 << 40) <= (40 << 20):     # formatted over old data: every table copy must be initialised
            p["cfg"] = dict(p["cfg"], vol=dict(p["cfg"]["vol"], prefill=[0xD1, 0xFF, 0x01, 0xE5][i // 2 % 4]))
        if i % 2 == 0:      # every legal media descriptor (0xF0 removable, 0xF8..0xFF) on every width: entry 0 of every copy repeats it
            p["cfg"] = dict(p["cfg"], vol=dict(p["cfg"]["vol"], media=[0xF0, 0xF9, 0xF0, 0xFF, 0xF8][(i // 2) % 5]))
    res.append(("own", core.campaign("own", own, wd)))
    core.finish("C10", LEVEL, res, None, t0,
                "histories on builder volumes with 1, 2 and 3 table copies, mirroring on and off with each active copy, FAT32 high nibbles set in used and "
                "free entries, zero (free-looking) padding entries, filled to exhaustion; after every call TLC checks copies equal (mirroring) or inactive "
                "copies untouched since mount, entries 0/1 unchanged, padding entries unchanged and never allocated, high nibbles preserved",
                ASSUME_TRACE)


def c11():
    t0 = time.time()
    wd = workdir("C11")
    rng = rng_for("C11", 0)
    progs = fam_foreign("C11", scale(10, 120), n_ops=10)
    # own volumes embedded in a larger device, devices that transfer fewer bytes than asked (legal per the Read/Write contracts)
    for kname in ["K1b", "K2", "K5"]:
        base = gen.K(kname)
        base = dict(base, vol=dict(base["vol"], tail=8192))
        for i in range(scale(8, 80)):
            cfg = dict(base, short=(rng.randrange(1, 1 << 30) if i % 2 == 0 else 0))
            progs.append(gen.ns_program(rng, "c11-ns-%s-%d" % (kname, i), cfg, 30, gen.NAMES_ASCII))
            progs.append(gen.io_program(rng, "c11-io-%s-%d" % (kname, i), cfg, CS[kname], 30))
    for i in range(scale(6, 60)):
        vol, cs = small_foreign(rng, 12)
        progs.append(gen.fill_program(rng, "c11-fill-%d" % i, {"vol": vol, "short": rng.choice([0, rng.randrange(1, 1 << 30)])}, cs, rounds=2))
    for i in range(scale(10, 100)):
        vol, cs = small_foreign(rng, 32)
        progs.append(gen.ns_program(rng, "c11-ns32-%d" % i, {"vol": vol}, 25, gen.NAMES_ASCII))
        vol, cs = small_foreign(rng, 32)
        progs.append(gen.io_program(rng, "c11-io32-%d" % i, {"vol": vol}, cs, 25))
    for i in range(scale(12, 120)):
        vol, cs = gen.end_of_table_volume(rng, [12, 16, 32][i % 3])
        progs.append(gen.fill_program(rng, "c11-eot-%d" % i, {"vol": vol, "short": rng.choice([0, 0, rng.randrange(1, 1 << 30)])}, cs, rounds=1,
                                      chunk_clusters=(1, 2), use_dirs=(i % 2 == 0)))
    # volumes of exactly 4084 / 4085 / 65524 / 65525 clusters (the width of the table entries changes there), populated by someone else
    for i in range(scale(8, 80)):
        n = [4084, 4085, 65524, 65525][i % 4]
        vol, cs = small_foreign(rng, 12 if n < 4085 else 16 if n < 65525 else 32, n=n)
        progs.append(gen.fill_program(rng, "c11-bnd-%d-%d" % (n, i), {"vol": vol}, cs, rounds=1, chunk_clusters=(1, 2, 3), use_dirs=(i % 2 == 0)))
        vol, cs = small_foreign(rng, 12 if n < 4085 else 16 if n < 65525 else 32, n=n)
        progs.append(gen.io_program(rng, "c11-bnd-io-%d-%d" % (n, i), {"vol": vol}, cs, 25))
    # a file is emptied or shortened, other files take the space (same session or after a remount), then it is written again through a new
    # handle: every write must land in clusters that are the file's own or were free
    for i in range(scale(24, 240)):
        kname = ["K1", "K1b", "K2", "K5"][i % 4]
        progs.append(gen.reuse_program(rng, "c11-reuse-%s-%d" % (kname, i), gen.K(kname), CS[kname]))
    for i in range(scale(40, 400)):
        kname = ["K1b", "K2", "K5", "K3"][i % 4]
        progs.append(gen.append_fault_program(rng, "c11-append-fault-%d" % i, gen.K(kname), CS[kname]))
    # volumes larger than 4 GiB (offsets beyond 32 bits): every write lands in its own cluster, none in the low ones
    for k in ("4g", "1t"):
        for h in ("4g", "last", "before_last", "unknown"):
            progs.append(gen.large_program(rng, "c11-large-%s-%s" % (k, h), k, h))
    res = [("writes", core.campaign("writes", progs, wd, n_shards=14))]
    core.finish("C11", LEVEL, res, None, t0,
                "every device write of namespace, file-I/O and fill histories on own and builder volumes embedded in a larger device (guard bytes after the "
                "declared end, filler in reserved sectors and boot code), with devices performing short transfers; each write is mapped to its region in u64 "
                "arithmetic and TLC checks the region is permitted and that written clusters belong to the objects the call may change or were free",
                ASSUME_TRACE, extra_prefixes=("C00.", "C03.link_free"))


def c20():
    t0 = time.time()
    wd = workdir("C20")
    rng = rng_for("C20", 0)
    progs = []
    kinds = ["4g", "1t", "2t", "limit4k"]
    hints = ["last", "before_last", "past", "unknown", "4g", "1t", "2g"]
    for k in kinds:
        for h in hints:
            progs.append(gen.large_program(rng, "large-%s-%s" % (k, h), k, h))
    for k in kinds:
        for h in ("last", "before_last"):
            progs.append(gen.large_last_program(rng, "large-end-%s-%s" % (k, h), k, h))
    for i in range(scale(9, 60)):
        vol, cs = gen.end_of_table_volume(rng, 32)
        progs.append(gen.fill_program(rng, "c20-eot-%d" % i, {"vol": vol}, cs, rounds=1, chunk_clusters=(1, 2, 3), use_dirs=False))
    res = [("large", core.campaign("large", progs, wd, n_shards=14))]
    # such volumes come into being by formatting devices of that size (the sector count taken from the device, or given): up to 2^32-1 sectors
    freqs = []
    for i, sectors in enumerate([(1 << 32) - 1, (1 << 32) - 2, (1 << 31) + 1, 1 << 31, 9000000, (1 << 32) - 1, 0x0FFFFFF5 + 70000]):
        for j, kw in enumerate(({"from_device": True}, {})):
            bps = 4096 if i == 6 else 512
            r = dict({"id": "lf-%d-%d" % (i, j), "sectors": sectors, "bps": bps}, **kw)
            if i == 5:
                r["fats"] = 1
            freqs.append(r)
    res.append(("large-format", core.campaign("large-format", freqs, wd, spec="TraceFormat", mode="formats", n_shards=2)))
    core.finish("C20", LEVEL, res, None, t0,
                "sparse builder volumes of 4 GiB, 1 TiB+, 2 TiB-512 B (512-byte sectors) and the FAT32 cluster limit with 4096-byte sectors, next-free hint "
                "at / just before / just past the last cluster, unknown, and at the clusters around the 2 GiB, 4 GiB and 1 TiB byte marks; short histories "
                "(create, write 3 clusters, flush, extents, read back, truncate, append to a foreign file, remove, statistics, remount) judged by the same "
                "model and raw-image oracles; contents compared per half-cluster digest; no device access at or beyond the declared end",
                ASSUME_TRACE + ["64-bit offset arithmetic of the decoder/region mapper (u64 in the harness) is correct"],
                extra_prefixes=("C00.", "C02.", "C04.", "C05.nospace_legit", "C05.stats", "C05.fsinfo", "C11.beyond", "C11.region", "C03.", "C06."))


def c19():
    t0 = time.time()
    wd = workdir("C19")
    rng = rng_for("C19", 0)
    dig = {"digest": True, "obs": {"raw": False, "rv": False, "sv": True}}
    ascii_progs, uni_progs = [], []
    for kname in ["K1b", "K2", "K5"]:
        cfg = dict(gen.K(kname), **dig)
        for i in range(scale(10, 100)):
            ascii_progs.append(gen.ns_program(rng, "f-ns-a-%s-%d" % (kname, i), cfg, 35, gen.NAMES_ASCII))
            uni_progs.append(gen.ns_program(rng, "f-ns-u-%s-%d" % (kname, i), cfg, 35, gen.NAMES_ASCII + gen.NAMES_UNI))
            ascii_progs.append(gen.io_program(rng, "f-io-%s-%d" % (kname, i), cfg, CS[kname], 30))
    # long names of every length 1..255 (all of 240..255 in the quick tier), ASCII and non-ASCII
    lens = list(range(1, 256)) if core.tier() == "thorough" else sorted(set(list(range(1, 30, 3)) + [12, 13, 14, 25, 26, 27, 38, 39, 40, 64, 65, 66, 127, 128, 129] + list(range(240, 256))))
    cfgn = dict(gen.K("K3"), **dig)
    for i in range(0, len(lens), 5):
        ascii_progs.append(gen.name_program("f-len-a-%d" % i, cfgn, [("n%03d-" % n + "x" * n)[:n] for n in lens[i:i + 5]], [("open", ("N%03d-" % n + "X" * n)[:n]) for n in lens[i:i + 5]]))
        uni_progs.append(gen.name_program("f-len-u-%d" % i, cfgn, [("\u00e9%03d-" % n + "\u00fc" * n)[:min(n, 127)] for n in lens[i:i + 5]], []))
    pairs = gen.ascii_bit5_batches()
    for i, (names, lookups) in enumerate(pairs):
        ascii_progs.append(gen.name_program("f-bit5-%d" % i, cfgn, names, lookups))
    res = []
    res.append(("alloc-ascii", core.feature_pairs("alloc-ascii", ascii_progs, wd, "noalloc")))
    res.append(("alloc-unicode", core.feature_pairs("alloc-unicode", uni_progs, wd, "noalloc")))
    res.append(("fold-ascii", core.feature_pairs("fold-ascii", ascii_progs, wd, "nounicode")))
    # non-ASCII histories on the ASCII-folding build must be explained by the same specification with Fold = AsciiUpper
    uni2 = [dict(p, cfg={k: v for k, v in p["cfg"].items() if k not in ("obs", "digest")}) for p in uni_progs]
    res.append(("fold-param", core.campaign("fold-param", uni2, wd, feat="nounicode")))
    # directories only another writer or a power cut produces (orphaned beginnings of long-name runs in front of complete runs, runs of
    # every length with and without terminator): every build must decode them as the one specification says, hence alike
    dirs = gen.orphan_cases(rng, quick=(core.tier() == "quick")) + gen.single_slot_cases() + gen.half_deleted_cases() + gen.interrupted_run_cases()
    for n in range(1, 21):
        for ln in (n * 13, n * 13 - 1):
            dirs.append(gen.lfn_run_slots([ord("A") + (k % 26) for k in range(ln)], gen._chk([ord(c) for c in "TARGET  TXT"]))
                        + [gen.sfn_slot([ord(c) for c in "TARGET  TXT"])])
    specs = [{"id": "f-dirs-%d" % (i // 100), "base": gen.K("K3")["vol"], "dirs": dirs[i:i + 100]} for i in range(0, len(dirs), 100)]
    for feat in ("noalloc", "nounicode"):
        res.append(("dirs-" + feat, core.campaign("dirs-" + feat, specs, wd, feat=feat, spec="TraceDirDecode", mode="dirs")))
    # ... and pairwise: where the one specification leaves a choice (a complete run behind an orphaned beginning may or may not be used),
    # the builds must still make the SAME choice
    res.append(("dirs-pairs-noalloc", core.feature_pairs("dirs-pairs-noalloc", specs, wd, "noalloc", mode="dirs")))
    programs = sum(r.programs for _, r in res)
    disagreements = sum(len(r.viol) for _, r in res)
    core.finish("C19", "translation_validation", res, None, t0,
                "the same namespace, file-I/O and long-name (every length 1..255 in thorough, all of 240..255 in quick) programs run through the reference "
                "build, the fixed-buffer build (std+lfn+unicode) and, for ASCII histories, the ASCII-folding build (std+alloc+lfn); events are zipped and "
                "TLC (TraceFeature) requires equal results, equal session listings and equal image digests after every call; non-ASCII histories on the "
                "ASCII-folding build are validated by TraceFatFs instantiated with Fold = AsciiUpper",
                ["image digest = FNV-1a over all non-zero 4 KiB blocks", "fields only one build can produce (String-returning accessors) are not compared"],
                extra_cov={"programs": programs, "disagreements_checked": disagreements},
                extra_prefixes=("C00.", "C01.", "C02.", "C04.", "C15.", "C17."))


def c17():
    t0 = time.time()
    wd = workdir("C17")
    rng = rng_for("C17", 0)
    dirs = gen.dir_cases(rng, quick=(core.tier() == "quick"))
    specs = []
    per = 150
    for i in range(0, len(dirs), per):
        base = gen.K("K3")["vol"] if (i // per) % 3 else dict(gen.K("K5b")["vol"])
        specs.append({"id": "dirs-%d" % (i // per), "base": base, "dirs": dirs[i:i + per]})
    res = []
    res.append(("alloc", core.campaign("alloc", specs, wd, spec="TraceDirDecode", mode="dirs", n_shards=14, jvms=8)))
    res.append(("fixedbuf", core.campaign("fixedbuf", specs, wd, feat="noalloc", spec="TraceDirDecode", mode="dirs", n_shards=14, jvms=8)))
    core.finish("C17", LEVEL, res, mc_lfn_reader(wd), t0,
                "(0) TLC model-checks the reader itself (LfnReader: the loop of read_dir_entry and LongNameBuilder, dynamic and fixed buffer) on every "
                "sequence of up to 4 slots over a 52-symbol alphabet against DirSlots!LongNameOk; (1) directories with arbitrary slot contents written into the root of FAT16/FAT32 volumes: all order/last-flag/checksum/deleted patterns for "
                "runs of 1 and 2 long-name slots and sampled (thorough: 120 000) runs of 3, followed by file/directory/label/deleted/END; well-formed runs of "
                "1..20 slots (260 units); unpaired surrogates, embedded NUL, 0xFFFF; every value (quick: stride 5 + special values) of every byte of a "
                "long-name slot and of a short slot in three contexts; random slot soup; under the dynamic and the fixed-buffer build. TLC (DirSlots!Class, "
                "LongNameOk) decides count, order, long-name-or-fallback, length and every accessor value",
                ["cluster pointers in the generated slots are 0 (valid); directory entries pointing into garbage chains are outside the property"])


CHECKS = {"C17": c17, "C19": c19, "C20": c20, "C10": c10, "C11": c11, "C08": c08, "C15": c15, "C16": c16, "C18": c18, "C06": c06, "C07": c07, "C09": c09, "C14": c14, "C01": c01, "C02": c02, "C03": c03, "C04": c04, "C05": c05, "C12": c12, "C13": c13}


def run(prop):
    if prop not in CHECKS:
        core.log("no check for %s" % prop)
        sys.exit(2)
    CHECKS[prop]()


def setup():
    for f in ("ref", "noalloc", "nounicode"):
        core.build(f)
    # SANY on all modules
    for fn in sorted(os.listdir(core.SPEC)):
        if fn.endswith(".tla"):
            p = subprocess.run(["java", "-cp", core.TLC_CP, "tla2sany.SANY", fn], cwd=core.SPEC, stdout=subprocess.PIPE, stderr=subprocess.STDOUT, text=True)
            if p.returncode != 0 or "error" in p.stdout.lower().replace("semantic errors: 0", ""):
                if "*** Errors" in p.stdout or "Fatal" in p.stdout:
                    core.log(p.stdout[-2000:])
                    raise core.ToolError("SANY failed on " + fn)
    print("setup ok")


def replay(path):
    with open(path) as f:
        rp = json.load(f)
    prog = rp["program"]
    wd = os.path.join(core.WORK, "replay")
    shutil.rmtree(wd, ignore_errors=True)
    os.makedirs(wd)
    r = core.campaign("replay", [prog], wd, keep_events=True)
    ef = os.path.join(wd, "replay-e00.ndjson")
    with open(ef) as f:
        for ln in f:
            ev = json.loads(ln)
            print(ev.get("i"), ev.get("op"), json.dumps(ev.get("a"))[:160], "=>", json.dumps(ev.get("r"))[:200])
    for t in r.viol:
        print("VIOL", t)
    for t in r.dev:
        print("DEV", t)
    for t in r.notes:
        print("NOTE", t)
    for e in r.tool_errors:
        print(e)


SELFTEST_PROG = {"id": "golden", "cfg": {"vol": gen.fmt(40960, bpc=512, fats=2, root=16)}, "ops": [
    {"op": "create_dir", "at": "", "path": "dir1"},
    {"op": "create_file", "at": "", "path": "dir1/Hello World.txt", "as": "h1"},
    {"op": "write_all", "h": "h1", "pat": 3, "len": 700},
    {"op": "flush", "h": "h1"},
    {"op": "seek", "h": "h1", "from": "start", "off": 510},
    {"op": "read", "h": "h1", "len": 10},
    {"op": "stats"},
    {"op": "close", "h": "h1"},
    {"op": "rename", "at": "", "src": "dir1/hello world.TXT", "to": "", "dst": "x.bin"},
    {"op": "list", "at": "", "path": ""},
    {"op": "remove", "at": "", "path": "dir1"},
    {"op": "unmount"}]}


def selftest(args):
    """demonstrates the binding: an unaltered recorded trace is accepted, every single-field corruption of it is rejected with the expected
    clause, and every historical behaviour of the code (Legacy flags of FatFsB) yields a TLC counterexample"""
    wd = os.path.join(core.WORK, "selftest")
    shutil.rmtree(wd, ignore_errors=True)
    os.makedirs(wd)
    binp = core.build("ref")
    pf = os.path.join(wd, "g.ndjson")
    ef = os.path.join(wd, "golden.ndjson")
    with open(pf, "w") as f:
        f.write(json.dumps(SELFTEST_PROG) + "\n")
    core.run_harness(binp, pf, ef)
    events = [json.loads(l) for l in open(ef)]

    def idx(op, nth=1):
        k = 0
        for i, e in enumerate(events):
            if e["op"] == op:
                k += 1
                if k == nth:
                    return i
        raise KeyError(op)

    def mutate(fn):
        ev = json.loads(json.dumps(events))
        fn(ev)
        return ev

    def m_result(ev):
        ev[idx("create_file")]["r"] = {"k": "err", "e": "NotFound"}

    def m_fat(ev):
        e = ev[idx("flush")]
        e["raw"]["fats"][0]["m"]["3"] = 3  # a cluster linking to itself, in one copy only

    def m_chk(ev):
        e = ev[idx("create_file")]
        for d in e["raw"]["dirs"]:
            for s in d["sl"]:
                if s["t"] == "L":
                    s["k"] = (s["k"] + 1) % 256
                    return

    def m_status(ev):
        ev[idx("create_dir")]["raw"]["st"] = 0

    def m_devw(ev):
        ev[idx("create_dir")]["w"].append({"r": "rsvd", "s": 3})

    def m_stats(ev):
        ev[idx("stats")]["r"]["free"] += 1

    def m_read(ev):
        ev[idx("read")]["r"]["d"][0] ^= 1

    def m_rv(ev):
        e = ev[idx("flush")]
        e["rv"]["tree"] = e["rv"]["tree"][:-1]

    def m_size(ev):
        e = ev[idx("flush")]
        for d in e["raw"]["dirs"]:
            for s in d["sl"]:
                if s["t"] == "S" and s.get("sz", 0) == 700:
                    s["sz"] = 1700

    def m_dotdot(ev):
        e = ev[idx("create_dir")]
        e["raw"]["dirs"][1]["sl"][1]["cl"] = 7

    def m_alias(ev):
        e = ev[idx("create_file")]
        for d in e["raw"]["dirs"]:
            for s in d["sl"]:
                if s["t"] == "S" and s["n"][0] == 72:
                    s["n"][0] = 104  # lower-case letter in an alias (the long-name slots carry the matching checksum)
                    c = 0
                    for x in s["n"]:
                        c = (((c & 1) << 7) + (c >> 1) + x) & 0xFF
                    for t in d["sl"]:
                        if t["t"] == "L":
                            t["k"] = c

    cases = [("unaltered", None, set()), ("result kind", m_result, {"C01.result"}), ("one FAT entry", m_fat, {"C10.mirror", "C03.fat_cycle"}),
             ("LFN checksum", m_chk, {"C03.lfn_chk"}), ("status byte", m_status, {"C12.bracket"}), ("device-write segment", m_devw, {"C11.region"}),
             ("statistics", m_stats, {"C05.stats"}), ("read data", m_read, {"C02.read_bytes"}), ("remount listing", m_rv, {"C04.remount"}),
             ("recorded size", m_size, {"C03.chain_size"}), ("dot-dot cluster", m_dotdot, {"C03.dotdot"}), ("alias byte", m_alias, {"C16.legal"})]
    ok = True
    for name, fn, want in cases:
        ev = mutate(fn) if fn else events
        tf = os.path.join(wd, "t.ndjson")
        with open(tf, "w") as f:
            for e in ev:
                f.write(json.dumps(e, separators=(",", ":")) + "\n")
        r = core.run_tlc(os.path.join(core.SPEC, "TraceFatFs.tla"), os.path.join(core.SPEC, "TraceFatFs.cfg"),
                         {"TRACE": tf, "FOLD": "unicode", "FOLDTAB": os.path.join(core.WORK, "fold.json")}, wd, "st")
        got = {f[0] for k, f in r["lines"] if k == "VIOL"}
        good = r["ok"] and (want <= got if want else not got)
        ok = ok and good
        print("%-22s expected %-32s got %-60s %s" % (name, sorted(want) or "-", sorted(got) or "-", "ok" if good else "MISSED"))
    legacy = {"rename_delete_first": "Refines", "no_dotdot_update": "StructInv", "no_capacity_check": "StructInv", "no_rollback": "StructInv",
              "create_dir_leak": "StructInv", "rename_into_self": "Refines", "hint_past_end": "HintInRange",
              "fsinfo_not_dirty_on_free": "FsInfoExact", "no_dirty_flag_on_dir_write": "DirtyBracket"}
    for flag, prop in legacy.items():
        if flag == "fsinfo_not_dirty_on_free":
            # needs two sessions (allocate, unmount, mount, free only, unmount): six operations deep
            r = core.mc_run("FatFsB", 'SPECIFICATION Spec\nCONSTANT N = 3\nCONSTANT SPC = 4\nCONSTANT ROOT = 0\nCONSTANT MaxOps = 6\nCONSTANT Features = {"mount"}\n'
                            'CONSTANT Legacy = {"fsinfo_not_dirty_on_free"}\nINVARIANT FsInfoExact\nCHECK_DEADLOCK FALSE\n', wd, "legacy", workers=8)
            good = (not r["ok"]) and prop in r["violated"]
            ok = ok and good
            print("FatFsB Legacy=%-22s expected counterexample to %-12s %s" % (flag, prop, "ok" if good else "MISSED"))
            continue
        r = core.mc_run("FatFsB", MC_B_CFG % (4, 0 if flag in ("fsinfo_not_dirty_on_free", "no_dirty_flag_on_dir_write") else 6, 4, '{"%s"}' % flag,
                                               '{"handles", "mount"}' if flag in ("fsinfo_not_dirty_on_free", "no_dirty_flag_on_dir_write") else "{}"), wd, "legacy")
        good = (not r["ok"]) and prop in r["violated"]
        ok = ok and good
        print("FatFsB Legacy=%-22s expected counterexample to %-12s %s" % (flag, prop, "ok" if good else "MISSED"))
    for skip in ('{"entry"}', '{"devflush"}'):
        r = core.mc_run("Durable", "SPECIFICATION Spec\nCONSTANT MaxWrites = 3\nCONSTANT Skip = %s\nINVARIANT Durable\nCHECK_DEADLOCK FALSE\n" % skip, wd, "dur")
        good = (not r["ok"]) and "Durable" in r["violated"]
        ok = ok and good
        print("Durable Skip=%-14s expected counterexample to Durable %s" % (skip, "ok" if good else "MISSED"))
    r = core.mc_run("Device", "SPECIFICATION Spec\nCONSTANT ChainLen = 4\nCONSTANT Budget = 40\nCONSTANT Legacy = TRUE\nINVARIANT WithinBudget\nINVARIANT Surfaced\nCHECK_DEADLOCK FALSE\n", wd, "dev")
    good = (not r["ok"]) and "WithinBudget" in r["violated"]
    ok = ok and good
    print("Device Legacy=TRUE        expected counterexample to WithinBudget %s" % ("ok" if good else "MISSED"))
    try:
        core.apalache_inductive("FatInd", 5, wd, "st", mutate=("![t] = c, ![c] = -1]\n        /\\ heads' = heads\n        /\\ free' = free - 1",
                                                               "![t] = c, ![c] = -1]\n        /\\ heads' = heads\n        /\\ free' = free"))
        good = False
    except core.ToolError as e:
        good = ": Error" in str(e)
    ok = ok and good
    print("FatInd Extend without count update: expected Apalache to refute the inductive step %s" % ("ok" if good else "MISSED"))
    for flag, prop in {"seek_floor": "PosOk", "trunc_keep_first": "RepInv", "seek_from_current": "RepInv", "trunc_after_next": "SizeChain"}.items():
        r = core.mc_run("FileB", FILEB_CFG % (4, 6, '{"%s"}' % flag, "FALSE"), wd, "flegacy")
        # (several invariants break together; which one a parallel run reports first varies)
        good = (not r["ok"]) and bool(set(r["violated"]) & {"RepInv", "SizeChain", "Content", "PosOk", "Ownership", "ResultsOk"})
        ok = ok and good
        print("FileB Legacy=%-23s expected counterexample to %-12s %s" % (flag, prop, "ok" if good else "MISSED"))
    _, fp0 = mc_file_b(wd, random.Random(5))
    _, fp1 = mc_file_b(wd, random.Random(5), corrupt=True)
    f0 = fileb_drift("fb0", fp0[:60], wd)
    f1 = fileb_drift("fb1", fp1[:60], wd)
    good = f0["compared"] > 100 and f0["drift"] == 0 and f1["drift"] >= f1["behaviours"]
    ok = ok and good
    print("FileB replay              %d calls compared, drift %d; one predicted table cell falsified per behaviour: drift %d of %d  %s"
          % (f0["compared"], f0["drift"], f1["drift"], f1["behaviours"], "ok" if good else "MISSED"))
    for flag, prop in {"skip_keeps_builder": "Decoded", "no_chk_compare": "Decoded", "clear_keeps_index": "Bounded"}.items():
        r = core.mc_run("LfnReader", LFN_CFG % (4, "alloc", '{"%s"}' % flag, "TRUE", "FALSE"), wd, "llegacy")
        good = (not r["ok"]) and prop in r["violated"]
        ok = ok and good
        print("LfnReader Legacy=%-19s expected counterexample to %-12s %s" % (flag, prop, "ok" if good else "MISSED"))
    r = core.mc_run("TableOrder", TABLE_ORDER_CFG % (5, '{"link_first"}'), wd, "tlegacy")
    good = (not r["ok"]) and "LinkFree" in r["violated"]
    ok = ok and good
    print("TableOrder Legacy=link_first        expected counterexample to LinkFree     %s" % ("ok" if good else "MISSED"))
    r = core.mc_run("MC_FormatImpl", 'SPECIFICATION Spec\nCONSTANT Deep = FALSE\nCONSTANT LegacyF = {"spf_round_down"}\nINVARIANT ValidInv\nCHECK_DEADLOCK FALSE\n', wd, "flegacyf")
    good = (not r["ok"]) and "ValidInv" in r["violated"]
    ok = ok and good
    print("FormatImpl LegacyF=spf_round_down   expected counterexample to ValidInv     %s" % ("ok" if good else "MISSED"))
    for flag in ("no_rootc_check", "fat32_needs_rootn0"):
        r = core.mc_run("MC_MountImpl", 'SPECIFICATION Spec\nCONSTANT Deep = FALSE\nCONSTANT LegacyM = {"%s"}\nINVARIANT SoundInv\nCHECK_DEADLOCK FALSE\n' % flag, wd, "mlegacy")
        good = (not r["ok"]) and "SoundInv" in r["violated"]
        ok = ok and good
        print("MountImpl LegacyM=%-19s expected counterexample to Sound        %s" % (flag, "ok" if good else "MISSED"))
    for flag, prop in {"saturate": "Bounded", "bit_count": "Unique"}.items():
        r = core.mc_run("AliasGen", ALIAS_CFG % (4, 2, 2, 9, '{"%s"}' % flag, "FALSE", "NoHashes", ""), wd, "alegacy")
        good = (not r["ok"]) and prop in r["violated"]
        ok = ok and good
        print("AliasGen Legacy=%-20s expected counterexample to %-12s %s" % (flag, prop, "ok" if good else "MISSED"))
    a0, _ = mc_alias_gen(wd, random.Random(7), only_replay=True)
    a1, _ = mc_alias_gen(wd, random.Random(7), corrupt=True, only_replay=True)
    good = a0["impl_model_conformance"]["drift"] == 0 and a0["impl_model_conformance"]["compared"] > 100 and a1["impl_model_conformance"]["drift"] == a1["impl_model_conformance"]["behaviours"]
    ok = ok and good
    print("AliasGen replay           %d aliases compared, drift %d; predicted alias falsified: drift %d of %d  %s"
          % (a0["impl_model_conformance"]["compared"], a0["impl_model_conformance"]["drift"], a1["impl_model_conformance"]["drift"], a1["impl_model_conformance"]["behaviours"], "ok" if good else "MISSED"))
    l0 = lfn_conformance(wd)
    l1 = lfn_conformance(wd, corrupt=True)
    good = all(v["compared"] > 8000 and v["drift"] == 0 for v in l0["builds"].values()) and all(v["drift"] > 5000 for v in l1["builds"].values())
    ok = ok and good
    print("LfnReader replay          %s; last predicted name falsified: %s  %s" % ({k: (v["compared"], v["drift"]) for k, v in l0["builds"].items()},
                                                                                    {k: v["drift"] for k, v in l1["builds"].items()}, "ok" if good else "MISSED"))
    c0 = b_conformance(wd, 10)
    c1 = b_conformance(wd, 10, corrupt=True)
    good = c0["compared"] > 50 and c0["drift"] == 0 and c1["drift"] == c1["behaviours"]
    ok = ok and good
    print("Layer B replay            %d calls compared, drift %d; one predicted table cell falsified per behaviour: drift %d of %d  %s"
          % (c0["compared"], c0["drift"], c1["drift"], c1["behaviours"], "ok" if good else "MISSED"))
    sys.exit(0 if ok else 1)
