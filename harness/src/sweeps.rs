//! Drivers for C06 (format requests) and C07 (boot-sector / FSInfo mutations).
//! They only execute requests and project outcomes; the judgement is TraceFormat / TraceMount.
use std::cell::Cell;
use std::panic::{catch_unwind, AssertUnwindSafe};
use std::rc::Rc;

use fatfs::{FileSystem, FsOptions};
use serde_json::{json, Map, Value};

use crate::decode::{decode, DecodeOpts, Geo};
use crate::dev::{Image, SimDevice};
use crate::exec::{err_json, format_options, make_volume, Clock, Oem, LAST_PANIC};

pub fn limbs(mut x: u64) -> Value {
    let mut v = Vec::new();
    for _ in 0..5 {
        v.push(x % 32768);
        x /= 32768;
    }
    json!(v)
}

/// independent parse of the BPB bytes into the record Geometry.tla works on
pub fn bpb_json(img: &Image) -> Value {
    let spf16 = img.u16_at(22);
    let l32 = spf16 == 0;
    json!({
        "bps": img.u16_at(11), "spc": img.u8_at(13), "rsvd": img.u16_at(14), "nfats": img.u8_at(16),
        "rootn": img.u16_at(17), "ts16": img.u16_at(19), "media": img.u8_at(21), "spf16": spf16,
        "ts32": limbs(u64::from(img.u32_at(32))),
        "spf32": limbs(if l32 { u64::from(img.u32_at(36)) } else { 0 }),
        "extf": if l32 { img.u16_at(40) } else { 0 }, "fsver": if l32 { img.u16_at(42) } else { 0 },
        "rootc": limbs(if l32 { u64::from(img.u32_at(44)) } else { 0 }),
        "fis": if l32 { img.u16_at(48) } else { 0 }, "bks": if l32 { img.u16_at(50) } else { 0 },
        "sig": [img.u8_at(510), img.u8_at(511)],
        "status": img.u8_at(if l32 { 0x41 } else { 0x25 }),
        "extsig": img.u8_at(if l32 { 66 } else { 38 }),
        "volid": limbs(u64::from(img.u32_at(if l32 { 67 } else { 39 }))),
        "label": img.vec_at(if l32 { 71 } else { 43 }, 11),
        "fstype": img.vec_at(if l32 { 82 } else { 54 }, 8),
    })
}

fn emit(w: &mut dyn std::io::Write, m: Map<String, Value>) {
    let s = serde_json::to_string(&Value::Object(m)).unwrap();
    w.write_all(s.as_bytes()).unwrap();
    w.write_all(b"\n").unwrap();
}

fn panic_msg() -> String {
    LAST_PANIC.with(|p| p.borrow().clone())
}

fn opts(strict: bool) -> FsOptions<Clock, Oem> {
    FsOptions::new()
        .time_provider(Clock(Rc::new(Cell::new([2020, 1, 1, 0, 0, 0, 0]))))
        .oem_cp_converter(Oem::Lossy)
        .strict(strict)
}

/// mount an image and report what the library derived; then use the volume a little
fn mount_outcome(img: &Image, strict: bool, poke: bool) -> (Value, Value) {
    let dev = SimDevice::new(img.clone());
    dev.0.borrow_mut().budget = 200_000;
    let r = catch_unwind(AssertUnwindSafe(|| FileSystem::new(dev.clone(), opts(strict))));
    match r {
        Err(_) => (json!({"k":"panic","msg":panic_msg()}), json!({})),
        Ok(Err(e)) => {
            let mut j = err_json(&e);
            if dev.0.borrow().budget_tripped {
                j = json!({"k":"hang"});
            }
            (j, json!({}))
        }
        Ok(Ok(fs)) => {
            let ft = match fs.fat_type() {
                fatfs::FatType::Fat12 => 12,
                fatfs::FatType::Fat16 => 16,
                fatfs::FatType::Fat32 => 32,
            };
            let cs = fs.cluster_size();
            let mut res = json!({"k":"ok","ft":ft,"cs":limbs(u64::from(cs))});
            let mut usej = Map::new();
            if poke {
                let st = catch_unwind(AssertUnwindSafe(|| fs.stats()));
                match st {
                    Ok(Ok(s)) => {
                        res["tot"] = limbs(u64::from(s.total_clusters()));
                        res["free"] = limbs(u64::from(s.free_clusters()));
                        usej.insert("stats".into(), json!({"k":"ok"}));
                    }
                    Ok(Err(e)) => {
                        usej.insert("stats".into(), err_json(&e));
                    }
                    Err(_) => {
                        usej.insert("stats".into(), json!({"k":"panic","msg":panic_msg()}));
                    }
                }
                let it = catch_unwind(AssertUnwindSafe(|| {
                    let mut n = 0;
                    let mut err = None;
                    for r in fs.root_dir().iter().take(64) {
                        match r {
                            Ok(e) => {
                                let _ = e.short_file_name_as_bytes().len() + e.len() as usize;
                                n += 1;
                            }
                            Err(e) => {
                                err = Some(err_json(&e));
                                break;
                            }
                        }
                    }
                    (n, err)
                }));
                match it {
                    Ok((n, None)) => {
                        usej.insert("list".into(), json!({"k":"ok","n":n}));
                    }
                    Ok((_, Some(e))) => {
                        usej.insert("list".into(), e);
                    }
                    Err(_) => {
                        usej.insert("list".into(), json!({"k":"panic","msg":panic_msg()}));
                    }
                }
                if dev.0.borrow().budget_tripped {
                    usej.insert("hang".into(), json!(true));
                }
            }
            // (dropping writes at most to this throw-away copy of the image; forgetting it would leak the device with every attempt)
            let _ = catch_unwind(AssertUnwindSafe(|| drop(fs)));
            (res, Value::Object(usej))
        }
    }
}

// ------------------------------------------------------------------------------------------------
// C06

pub fn formats(req: &Value, w: &mut dyn std::io::Write) -> u64 {
    let id = req.get("id").cloned().unwrap_or(json!(""));
    let bps = req.get("bps").and_then(Value::as_u64).unwrap_or(512);
    let sectors = req.get("sectors").and_then(Value::as_u64).unwrap_or(0);
    let tail = req.get("tail").and_then(Value::as_u64).unwrap_or(0);
    let mut m = Map::new();
    m.insert("op".into(), json!("fmt"));
    m.insert("pid".into(), id);
    m.insert("i".into(), json!(1));
    let mut reqj = req.clone();
    reqj["T"] = limbs(sectors);
    // device size: declared sectors unless the request says the size comes from the device
    let from_dev = req.get("from_device").and_then(Value::as_bool).unwrap_or(false);
    m.insert("req".into(), reqj);
    let size = sectors * bps;
    let mut img = Image::new(size + tail);
    if tail > 0 {
        img.fill(size, tail.min(1 << 16), 0xA5);
    }
    // a storage that was in use before: formatting must not rely on finding zeros
    if let Some(pf) = req.get("prefill").and_then(Value::as_u64) {
        img.fill(0, size.min(48 << 20), pf as u8);
    }
    let mut dev = SimDevice::new(img);
    {
        let mut d = dev.0.borrow_mut();
        d.vol_end = size;
        d.budget = 50_000_000;
    }
    let mut r2 = req.clone();
    if from_dev {
        r2.as_object_mut().unwrap().remove("sectors");
    }
    let o = match format_options(&r2) {
        Ok(o) => o,
        Err(msg) => {
            // the options builder asserts its documented preconditions: not a format outcome
            m.insert("r".into(), json!({"k":"skip","why":msg}));
            emit(w, m);
            return 1;
        }
    };
    let r = catch_unwind(AssertUnwindSafe(|| fatfs::format_volume(&mut dev, o)));
    let res = match r {
        Err(_) => json!({"k":"panic","msg":panic_msg()}),
        Ok(Err(e)) => {
            if dev.0.borrow().budget_tripped {
                json!({"k":"hang"})
            } else {
                err_json(&e)
            }
        }
        Ok(Ok(())) => json!({"k":"ok"}),
    };
    let ok = res["k"] == "ok";
    m.insert("r".into(), res);
    m.insert("beyond".into(), json!(dev.0.borrow().beyond.len()));
    if ok {
        let img = dev.image();
        m.insert("b".into(), bpb_json(&img));
        let raw = decode(&img, &DecodeOpts { cell: 1, max_file_bytes: 0, with_files: false });
        m.insert("raw".into(), raw);
        // backup boot sector (FAT32): first 512 bytes equal
        if let Some(g) = Geo::parse(&img) {
            if g.layout32 {
                let a = img.vec_at(0, 512);
                let b = img.vec_at(g.backup_sector * g.bps, 512);
                m.insert("bk_eq".into(), json!(a == b));
            }
            if tail > 0 {
                let t = img.vec_at(size, tail.min(1 << 16) as usize);
                m.insert("tail".into(), json!(t.iter().all(|x| *x == 0xA5)));
            }
        }
        let (mr, _) = mount_outcome(&img, true, true);
        m.insert("mnt".into(), mr);
    }
    emit(w, m);
    1
}

// ------------------------------------------------------------------------------------------------
// C07

fn field(name: &str, l32: bool) -> Option<(u64, usize)> {
    Some(match name {
        "jmp0" => (0, 1),
        "bps" => (11, 2),
        "spc" => (13, 1),
        "rsvd" => (14, 2),
        "nfats" => (16, 1),
        "rootn" => (17, 2),
        "ts16" => (19, 2),
        "media" => (21, 1),
        "spf16" => (22, 2),
        "spt" => (24, 2),
        "heads" => (26, 2),
        "hidden" => (28, 4),
        "ts32" => (32, 4),
        "spf32" => (36, 4),
        "extf" => (40, 2),
        "fsver" => (42, 2),
        "rootc" => (44, 4),
        "fis" => (48, 2),
        "bks" => (50, 2),
        "drive" => (if l32 { 64 } else { 36 }, 1),
        "status" => (if l32 { 65 } else { 37 }, 1),
        "extsig" => (if l32 { 66 } else { 38 }, 1),
        "sig" => (510, 2),
        // FSInfo sector fields, relative to the FSInfo sector (resolved by the caller)
        "fi_lead" => (0, 4),
        "fi_struc" => (484, 4),
        "fi_free" => (488, 4),
        "fi_next" => (492, 4),
        "fi_trail" => (508, 4),
        _ => return None,
    })
}

fn apply(img: &mut Image, base_geo: &Option<Geo>, name: &str, val: u64) -> bool {
    let l32 = img.u16_at(22) == 0;
    if let Some(off) = name.strip_prefix('@') {
        if let Ok(o) = off.parse::<u64>() {
            img.write_at(o, &[val as u8]);
            return true;
        }
        return false;
    }
    let Some((mut off, size)) = field(name, l32) else { return false };
    if name.starts_with("fi_") {
        match base_geo {
            Some(g) if g.layout32 => off += g.fsinfo_sector * g.bps,
            _ => return false,
        }
    }
    let bytes = val.to_le_bytes();
    img.write_at(off, &bytes[..size]);
    true
}

/// one spec line: {"id", "base": vol, "strict": bool, "muts": [{"f": name, "vals": [..]} | {"f": name, "all": 8|16, "stride": s}
///                 | {"combo": [[name, val]...]}], "truncate": [sizes]}
pub fn mounts(spec: &Value, w: &mut dyn std::io::Write) -> u64 {
    let id = spec.get("id").and_then(Value::as_str).unwrap_or("").to_string();
    let strict = spec.get("strict").and_then(Value::as_bool).unwrap_or(true);
    let base = match make_volume(&spec["base"]) {
        Ok(i) => i,
        Err(e) => {
            let mut m = Map::new();
            m.insert("op".into(), json!("mnt"));
            m.insert("pid".into(), json!(id));
            m.insert("i".into(), json!(0));
            m.insert("r".into(), json!({"k":"skip","why":e}));
            emit(w, m);
            return 1;
        }
    };
    let base_geo = Geo::parse(&base);
    let mut n = 0u64;
    let mut one = |muts: &[(String, u64)], trunc: Option<u64>, w: &mut dyn std::io::Write| {
        let mut img = base.clone();
        for (f, v) in muts {
            apply(&mut img, &base_geo, f, *v);
        }
        if let Some(sz) = trunc {
            // a device shorter than the volume claims to be
            let mut t = Image::new(sz);
            t.write_at(0, &img.vec_at(0, sz.min(1 << 20) as usize));
            img = t;
        }
        n += 1;
        let (res, usej) = mount_outcome(&img, strict, true);
        let mut m = Map::new();
        m.insert("op".into(), json!("mnt"));
        m.insert("pid".into(), json!(id));
        m.insert("i".into(), json!(n));
        m.insert("strict".into(), json!(strict));
        m.insert("mut".into(), json!(muts.iter().map(|(f, v)| json!([f, limbs(*v)])).collect::<Vec<_>>()));
        if let Some(sz) = trunc {
            m.insert("trunc".into(), limbs(sz));
        }
        m.insert("b".into(), bpb_json(&img));
        // FSInfo sector as an independent reader finds it
        let l32 = img.u16_at(22) == 0;
        if l32 {
            let bps = u64::from(img.u16_at(11));
            let fo = u64::from(img.u16_at(48)) * bps;
            m.insert("fi".into(), json!({"lead": limbs(u64::from(img.u32_at(fo))), "struc": limbs(u64::from(img.u32_at(fo + 484))),
                "free": limbs(u64::from(img.u32_at(fo + 488))), "next": limbs(u64::from(img.u32_at(fo + 492))), "trail": limbs(u64::from(img.u32_at(fo + 508))),
                "inside": fo + 512 <= img.size}));
        }
        m.insert("dev".into(), limbs(img.size));
        m.insert("r".into(), res);
        m.insert("use".into(), usej);
        emit(w, m);
    };
    if let Some(ms) = spec.get("muts").and_then(Value::as_array) {
        for mu in ms {
            if let Some(cl) = mu.get("clusters").and_then(Value::as_array) {
                // total-sector values that give exactly N data clusters (boundaries of the FAT widths)
                if let Some(g) = &base_geo {
                    for nv in cl {
                        let nclu = nv.as_u64().unwrap_or(0);
                        for r in [0, g.spc - 1] {
                            let t = g.first_data_sector + nclu * g.spc + r;
                            if t > 0xFFFF_FFFF {
                                continue;
                            }
                            if !g.layout32 && t < 0x10000 {
                                one(&[("ts16".to_string(), t), ("ts32".to_string(), 0)], None, w);
                            } else {
                                one(&[("ts16".to_string(), 0), ("ts32".to_string(), t)], None, w);
                            }
                        }
                    }
                }
            } else if let Some(c) = mu.get("combo").and_then(Value::as_array) {
                let v: Vec<(String, u64)> = c.iter().map(|p| (p[0].as_str().unwrap_or("").to_string(), p[1].as_u64().unwrap_or(0))).collect();
                one(&v, None, w);
            } else if let Some(f) = mu.get("f").and_then(Value::as_str) {
                if let Some(vals) = mu.get("vals").and_then(Value::as_array) {
                    for v in vals {
                        one(&[(f.to_string(), v.as_u64().unwrap_or(0))], None, w);
                    }
                } else if let Some(bits) = mu.get("all").and_then(Value::as_u64) {
                    let stride = mu.get("stride").and_then(Value::as_u64).unwrap_or(1).max(1);
                    let shift = mu.get("shift").and_then(Value::as_u64).unwrap_or(0);
                    let mut v = mu.get("from").and_then(Value::as_u64).unwrap_or(0);
                    while v < (1u64 << bits) {
                        one(&[(f.to_string(), v << shift)], None, w);
                        v += stride;
                    }
                }
            }
        }
    }
    if let Some(ts) = spec.get("truncate").and_then(Value::as_array) {
        for t in ts {
            one(&[], t.as_u64(), w);
        }
    }
    n
}

// ------------------------------------------------------------------------------------------------
// C17: arbitrary directory slot contents

/// one spec line: {"id", "base": vol, "dirs": [[ [32 bytes] ... ] ...]}: every element of `dirs` is written over the
/// beginning of the root directory of a fresh copy of the base volume, which is then mounted and listed
pub fn dirs(spec: &Value, w: &mut dyn std::io::Write) -> u64 {
    use crate::decode::slot_json;
    let id = spec.get("id").and_then(Value::as_str).unwrap_or("").to_string();
    let Ok(base) = make_volume(&spec["base"]) else { return 0 };
    let Some(g) = Geo::parse(&base) else { return 0 };
    let root_off = if g.ft == 32 { g.clu_off(g.root_cluster) } else { g.root_off() };
    let cap = if g.ft == 32 { g.cs() / 32 } else { g.root_entries };
    let mut n = 0u64;
    // optional "pred": per directory, the long names a model of the reader predicts (compared by TraceDirDecode, never a verdict)
    let preds = spec.get("pred").and_then(Value::as_array).cloned();
    for (di, d) in spec.get("dirs").and_then(Value::as_array).cloned().unwrap_or_default().into_iter().enumerate() {
        let slots: Vec<Vec<u8>> = d
            .as_array()
            .map(|a| a.iter().map(|s| s.as_array().map(|b| b.iter().map(|x| x.as_u64().unwrap_or(0) as u8).collect()).unwrap_or_default()).collect())
            .unwrap_or_default();
        if slots.len() as u64 > cap {
            continue;
        }
        let mut img = base.clone();
        let mut sj = Vec::new();
        for (i, s) in slots.iter().enumerate() {
            let mut b = s.clone();
            b.resize(32, 0);
            img.write_at(root_off + i as u64 * 32, &b);
            if b[0] == 0 {
                break; // END marker: what follows is not part of the directory
            }
            sj.push(slot_json(&b, g.ft));
        }
        n += 1;
        let dev = SimDevice::new(img);
        dev.0.borrow_mut().budget = 100_000;
        let r = catch_unwind(AssertUnwindSafe(|| -> Value {
            let fs = match FileSystem::new(dev.clone(), opts(true)) {
                Ok(fs) => fs,
                Err(e) => return json!({"k":"mounterr","err":err_json(&e)}),
            };
            let mut ents = Vec::new();
            let mut res = json!({"k":"ok"});
            for r in fs.root_dir().iter() {
                match r {
                    Ok(e) => {
                        // every accessor is called
                        let sn: Vec<u8> = e.short_file_name_as_bytes().to_vec();
                        let ln: Vec<u16> = e.long_file_name_as_ucs2_units().map(|u| u.to_vec()).unwrap_or_default();
                        let c = e.created();
                        let m = e.modified();
                        let a = e.accessed();
                        let mut j = json!({"sn": sn, "ln": ln, "at": e.attributes().bits(), "sz": e.len(), "d": e.is_dir(), "f": e.is_file(),
                            "ct": [c.date.year, c.date.month, c.date.day, c.time.hour, c.time.min, c.time.sec, c.time.millis],
                            "mt": [m.date.year, m.date.month, m.date.day, m.time.hour, m.time.min, m.time.sec, m.time.millis],
                            "ad": [a.year, a.month, a.day]});
                        #[cfg(feature = "has_alloc")]
                        {
                            j["fn"] = json!(crate::exec::units(&e.file_name()));
                            j["sfn"] = json!(crate::exec::units(&e.short_file_name()));
                        }
                        ents.push(j);
                        if ents.len() > 600 {
                            res = json!({"k":"hang"});
                            break;
                        }
                    }
                    Err(e) => {
                        res = err_json(&e);
                        break;
                    }
                }
            }
            drop(fs);
            res["ents"] = json!(ents);
            res
        }));
        let mut res = match r {
            Ok(v) => v,
            Err(_) => json!({"k":"panic","msg":panic_msg()}),
        };
        if dev.0.borrow().budget_tripped {
            res = json!({"k":"hang"});
        }
        let mut m = Map::new();
        m.insert("op".into(), json!("dirdec"));
        m.insert("pid".into(), json!(id));
        m.insert("i".into(), json!(n));
        m.insert("feat".into(), json!(crate::FEATURE));
        m.insert("sl".into(), json!(sj));
        m.insert("r".into(), res);
        if let Some(p) = preds.as_ref().and_then(|p| p.get(di)) {
            m.insert("pred".into(), p.clone());
        }
        emit(w, m);
    }
    n
}

// ------------------------------------------------------------------------------------------------
// C06 thorough: every sector count of a range for default options, through the boot-sector hook (no I/O)

#[cfg(fatfs_verif)]
pub fn fmtsweep(lo: u64, hi: u64, w: &mut dyn std::io::Write) -> u64 {
    use fatfs::FormatVolumeOptions;
    // layout key of a boot sector: everything but the total sector count
    fn key(b: &[u8; 512]) -> [u8; 40] {
        let mut k = [0u8; 40];
        k[..8].copy_from_slice(&b[11..19]); // bps, spc, rsvd, nfats, root entries
        k[8] = b[21];
        k[9..11].copy_from_slice(&b[22..24]); // sectors per fat 16
        k[11..31].copy_from_slice(&b[36..56]); // FAT32 extension (spf32, flags, version, root cluster, fsinfo, backup)
        k[31] = (b[19] != 0 || b[20] != 0) as u8; // which total-sectors field is used
        k
    }
    let opts = FormatVolumeOptions::new();
    let mut n = 0u64;
    let mut run: Option<(u64, u64, Option<([u8; 512], [u8; 40])>, [u8; 512], Value)> = None; // lo, hi, first (bytes,key), last bytes, result
    let mut flush = |r: &(u64, u64, Option<([u8; 512], [u8; 40])>, [u8; 512], Value), w: &mut dyn std::io::Write, n: &mut u64| {
        let mut m = Map::new();
        m.insert("op".into(), json!("fmtrun"));
        m.insert("pid".into(), json!(format!("sweep-{}", r.0)));
        m.insert("i".into(), json!(*n + 1));
        m.insert("lo".into(), limbs(r.0));
        m.insert("hi".into(), limbs(r.1));
        m.insert("r".into(), r.4.clone());
        if let Some((first, _)) = &r.2 {
            let mut a = Image::new(512);
            a.write_at(0, first);
            let mut b = Image::new(512);
            b.write_at(0, &r.3);
            m.insert("blo".into(), bpb_json(&a));
            m.insert("bhi".into(), bpb_json(&b));
        }
        emit(w, m);
        *n += 1;
    };
    let mut t = lo;
    while t <= hi {
        let r = catch_unwind(AssertUnwindSafe(|| fatfs::verif_format_boot_sector(&opts, t as u32)));
        let (res, bytes): (Value, Option<[u8; 512]>) = match r {
            Err(_) => (json!({"k":"panic","msg":panic_msg()}), None),
            Ok(Err(fatfs::Error::InvalidInput)) => (json!({"k":"err","e":"InvalidInput"}), None),
            Ok(Err(_)) => (json!({"k":"err","e":"Other"}), None),
            Ok(Ok((b, _))) => (json!({"k":"ok"}), Some(b)),
        };
        let k = bytes.as_ref().map(key);
        let same = match &run {
            Some((_, _, first, _, rr)) => *rr == res && first.as_ref().map(|f| f.1) == k,
            None => false,
        };
        if same {
            let r = run.as_mut().unwrap();
            r.1 = t;
            if let Some(b) = bytes {
                r.3 = b;
            }
        } else {
            if let Some(r) = run.take() {
                flush(&r, w, &mut n);
            }
            run = Some((t, t, bytes.map(|b| (b, key(&b))), bytes.unwrap_or([0; 512]), res));
        }
        t += 1;
    }
    if let Some(r) = run.take() {
        flush(&r, w, &mut n);
    }
    n
}
