//! Program executor: runs a JSON program against the real fatfs API and records one NDJSON event
//! per operation (result + projections of the state after the call).
use std::cell::{Cell, RefCell};
use std::collections::HashMap;
use std::panic::{catch_unwind, AssertUnwindSafe};
use std::rc::Rc;

use fatfs::{
    Date, DateTime, Dir, Error, FatType, File, FileSystem, FormatVolumeOptions, FsOptions, OemCpConverter, Read, Seek,
    SeekFrom, Time, TimeProvider, Write,
};
use serde_json::{json, Map, Value};

use crate::builder;
use crate::decode::{cells, decode, regions, DecodeOpts, Geo};
use crate::dev::{CallKind, DevErrKind, DevError, Image, SimDevice};

// ------------------------------------------------------------------------------------------------
// deterministic clock and OEM converter

#[derive(Clone, Debug)]
pub struct Clock(pub Rc<Cell<[u16; 7]>>);

impl TimeProvider for Clock {
    fn get_current_date(&self) -> Date {
        let t = self.0.get();
        Date::new(t[0], t[1], t[2])
    }
    fn get_current_date_time(&self) -> DateTime {
        let t = self.0.get();
        DateTime::new(Date::new(t[0], t[1], t[2]), Time::new(t[3], t[4], t[5], t[6]))
    }
}

#[derive(Clone, Copy, Debug)]
pub enum Oem {
    Lossy,
    Latin1,
}

impl OemCpConverter for Oem {
    fn decode(&self, b: u8) -> char {
        match self {
            // the library's own default converter (what a user gets who sets none); the specification says what it must do
            Oem::Lossy => fatfs::LossyOemCpConverter::new().decode(b),
            Oem::Latin1 => char::from(b),
        }
    }
    fn encode(&self, c: char) -> Option<u8> {
        match self {
            Oem::Lossy => fatfs::LossyOemCpConverter::new().encode(c),
            Oem::Latin1 => {
                if (c as u32) <= 0xFF {
                    Some(c as u8)
                } else {
                    None
                }
            }
        }
    }
}

pub type Fs = FileSystem<SimDevice, Clock, Oem>;
pub type FFile<'a> = File<'a, SimDevice, Clock, Oem>;
pub type FDir<'a> = Dir<'a, SimDevice, Clock, Oem>;

// ------------------------------------------------------------------------------------------------
// helpers

thread_local! {
    pub static LAST_PANIC: RefCell<String> = RefCell::new(String::new());
}

pub fn install_panic_hook() {
    std::panic::set_hook(Box::new(|info| {
        let loc = info.location().map(|l| format!("{}:{}", l.file(), l.line())).unwrap_or_default();
        let msg = if let Some(s) = info.payload().downcast_ref::<&str>() {
            (*s).to_string()
        } else if let Some(s) = info.payload().downcast_ref::<String>() {
            s.clone()
        } else {
            "?".to_string()
        };
        LAST_PANIC.with(|p| *p.borrow_mut() = format!("{} @ {}", msg, loc));
    }));
}

pub fn units(s: &str) -> Vec<u16> {
    s.encode_utf16().collect()
}

pub fn err_json(e: &Error<DevError>) -> Value {
    match e {
        Error::Io(d) => match d.kind {
            DevErrKind::Injected => json!({"k":"err","e":"Io","io":"injected","id":d.id}),
            DevErrKind::Eof => json!({"k":"err","e":"Io","io":"eof","id":0}),
            DevErrKind::WriteZero => json!({"k":"err","e":"Io","io":"writezero","id":0}),
            DevErrKind::Budget => json!({"k":"hang"}),
            DevErrKind::BadSeek => json!({"k":"err","e":"Io","io":"badseek","id":0}),
            DevErrKind::Interrupted => json!({"k":"err","e":"Io","io":"interrupted","id":d.id}),
        },
        Error::UnexpectedEof => json!({"k":"err","e":"UnexpectedEof"}),
        Error::WriteZero => json!({"k":"err","e":"WriteZero"}),
        Error::InvalidInput => json!({"k":"err","e":"InvalidInput"}),
        Error::NotFound => json!({"k":"err","e":"NotFound"}),
        Error::AlreadyExists => json!({"k":"err","e":"AlreadyExists"}),
        Error::DirectoryIsNotEmpty => json!({"k":"err","e":"DirectoryIsNotEmpty"}),
        Error::CorruptedFileSystem => json!({"k":"err","e":"CorruptedFileSystem"}),
        Error::NotEnoughSpace => json!({"k":"err","e":"NotEnoughSpace"}),
        Error::InvalidFileNameLength => json!({"k":"err","e":"InvalidFileNameLength"}),
        Error::UnsupportedFileNameCharacter => json!({"k":"err","e":"UnsupportedFileNameCharacter"}),
        _ => json!({"k":"err","e":"Other"}),
    }
}

fn dt_json(dt: DateTime) -> Value {
    json!([dt.date.year, dt.date.month, dt.date.day, dt.time.hour, dt.time.min, dt.time.sec, dt.time.millis])
}

fn d_json(d: Date) -> Value {
    json!([d.year, d.month, d.day])
}

fn ft_num(t: FatType) -> u32 {
    match t {
        FatType::Fat12 => 12,
        FatType::Fat16 => 16,
        FatType::Fat32 => 32,
    }
}

pub struct ListCtx {
    pub cell: usize,
    pub content: bool,
    pub max_file_bytes: usize,
    pub max_entries: usize,
    pub count: usize,
}

fn entry_json<'a>(e: &fatfs::DirEntry<'a, SimDevice, Clock, Oem>, path: &[Vec<u16>], ctx: &mut ListCtx) -> (Value, Vec<u16>) {
    let sn: Vec<u8> = e.short_file_name_as_bytes().to_vec();
    let ln: Vec<u16> = e.long_file_name_as_ucs2_units().map(|u| u.to_vec()).unwrap_or_default();
    #[cfg(feature = "has_alloc")]
    let fname: Vec<u16> = units(&e.file_name());
    #[cfg(not(feature = "has_alloc"))]
    let fname: Vec<u16> = if ln.is_empty() { sn.iter().map(|b| u16::from(*b)).collect() } else { ln.clone() };
    let disp = fname.clone();
    let mut p: Vec<Vec<u16>> = path.to_vec();
    p.push(disp.clone());
    let mut m = Map::new();
    m.insert("p".into(), json!(p));
    m.insert("k".into(), json!(if e.is_dir() { "d" } else { "f" }));
    m.insert("isf".into(), json!(e.is_file()));
    m.insert("sz".into(), json!(e.len()));
    m.insert("at".into(), json!(e.attributes().bits()));
    m.insert("sn".into(), json!(sn));
    m.insert("ln".into(), json!(ln));
    #[cfg(feature = "has_alloc")]
    {
        m.insert("fn".into(), json!(fname));
        m.insert("sfn".into(), json!(units(&e.short_file_name())));
    }
    m.insert("ct".into(), dt_json(e.created()));
    m.insert("mt".into(), dt_json(e.modified()));
    m.insert("ad".into(), d_json(e.accessed()));
    if ctx.content && e.is_file() {
        let mut f = e.to_file();
        let mut data: Vec<u8> = Vec::new();
        let mut buf = [0u8; 4096];
        let mut err: Option<Value> = None;
        loop {
            match f.read(&mut buf) {
                Ok(0) => break,
                Ok(n) => {
                    data.extend_from_slice(&buf[..n]);
                    if data.len() >= ctx.max_file_bytes {
                        break;
                    }
                }
                Err(e) => {
                    err = Some(err_json(&e));
                    break;
                }
            }
        }
        m.insert("c".into(), json!(cells(&data, ctx.cell)));
        if let Some(e) = err {
            m.insert("cerr".into(), e);
        }
    }
    (Value::Object(m), disp)
}

/// flat recursive listing; `.` and `..` are listed but not entered
pub fn list_rec<'a>(dir: &FDir<'a>, path: &[Vec<u16>], depth: usize, ctx: &mut ListCtx, out: &mut Vec<Value>) {
    for r in dir.iter() {
        ctx.count += 1;
        if ctx.count > ctx.max_entries {
            out.push(json!({"p": path, "k": "x", "err": "too many entries"}));
            return;
        }
        match r {
            Ok(e) => {
                let (j, disp) = entry_json(&e, path, ctx);
                let is_dir = e.is_dir();
                let sn = e.short_file_name_as_bytes().to_vec();
                out.push(j);
                if is_dir && sn != b"." && sn != b".." && depth < 12 {
                    let mut p = path.to_vec();
                    p.push(disp);
                    let sub = e.to_dir();
                    list_rec(&sub, &p, depth + 1, ctx, out);
                }
            }
            Err(e) => {
                out.push(json!({"p": path, "k": "x", "err": err_json(&e)}));
                return;
            }
        }
    }
}

pub fn list_tree(fs: &Fs, cell: usize, content: bool) -> Value {
    let mut ctx = ListCtx { cell, content, max_file_bytes: 1 << 20, max_entries: 20000, count: 0 };
    let mut out = Vec::new();
    let r = catch_unwind(AssertUnwindSafe(|| {
        let root = fs.root_dir();
        list_rec(&root, &[], 0, &mut ctx, &mut out);
    }));
    if r.is_err() {
        let msg = LAST_PANIC.with(|p| p.borrow().clone());
        out.push(json!({"p": [], "k": "x", "err": {"k":"panic","msg":msg}}));
    }
    Value::Array(out)
}

// ------------------------------------------------------------------------------------------------
// configuration

#[derive(Clone)]
pub struct Cfg {
    pub j: Value,
    pub cell: usize,
    pub atime: bool,
    pub strict: bool,
    pub oem: Oem,
    pub short: u64,
    pub budget: u64,
    pub obs_raw: bool,
    pub obs_rv: bool,
    pub obs_sv: bool,
    pub wlog: bool,
}

impl Cfg {
    pub fn from_json(j: &Value) -> Cfg {
        let obs = j.get("obs").cloned().unwrap_or(json!({}));
        Cfg {
            j: j.clone(),
            cell: j.get("cell").and_then(Value::as_u64).unwrap_or(1) as usize,
            atime: j.get("atime").and_then(Value::as_bool).unwrap_or(false),
            strict: j.get("strict").and_then(Value::as_bool).unwrap_or(true),
            oem: if j.get("oem").and_then(Value::as_str) == Some("latin1") { Oem::Latin1 } else { Oem::Lossy },
            short: j.get("short").and_then(Value::as_u64).unwrap_or(0),
            budget: j.get("budget").and_then(Value::as_u64).unwrap_or(300_000),
            obs_raw: obs.get("raw").and_then(Value::as_bool).unwrap_or(true),
            obs_rv: obs.get("rv").and_then(Value::as_bool).unwrap_or(true),
            // listing through the session reads directories: with access-date updating on that would write (observer effect)
            obs_sv: obs.get("sv").and_then(Value::as_bool).unwrap_or(true) && !j.get("atime").and_then(Value::as_bool).unwrap_or(false),
            wlog: j.get("wlog").and_then(Value::as_bool).unwrap_or(false),
        }
    }
}

fn ft_opt(v: Option<&Value>) -> Option<FatType> {
    match v.and_then(Value::as_u64) {
        Some(12) => Some(FatType::Fat12),
        Some(16) => Some(FatType::Fat16),
        Some(32) => Some(FatType::Fat32),
        _ => None,
    }
}

pub fn format_options(v: &Value) -> Result<FormatVolumeOptions, String> {
    // the builder methods assert on their arguments: catch those as "invalid request"
    let v = v.clone();
    catch_unwind(move || {
        let mut o = FormatVolumeOptions::new();
        if let Some(b) = v.get("bps").and_then(Value::as_u64) {
            o = o.bytes_per_sector(b as u16);
        }
        if let Some(b) = v.get("bpc").and_then(Value::as_u64) {
            o = o.bytes_per_cluster(b as u32);
        }
        if let Some(b) = v.get("fats").and_then(Value::as_u64) {
            o = o.fats(b as u8);
        }
        if let Some(b) = v.get("root").and_then(Value::as_u64) {
            o = o.max_root_dir_entries(b as u16);
        }
        if let Some(t) = ft_opt(v.get("ft")) {
            o = o.fat_type(t);
        }
        if let Some(b) = v.get("media").and_then(Value::as_u64) {
            o = o.media(b as u8);
        }
        if let Some(b) = v.get("volid").and_then(Value::as_u64) {
            o = o.volume_id(b as u32);
        }
        if let Some(b) = v.get("drive").and_then(Value::as_u64) {
            o = o.drive_num(b as u8);
        }
        if let Some(b) = v.get("spt").and_then(Value::as_u64) {
            o = o.sectors_per_track(b as u16);
        }
        if let Some(b) = v.get("heads").and_then(Value::as_u64) {
            o = o.heads(b as u16);
        }
        if let Some(l) = v.get("label").and_then(Value::as_array) {
            let mut lab = [b' '; 11];
            for (i, x) in l.iter().take(11).enumerate() {
                lab[i] = x.as_u64().unwrap_or(32) as u8;
            }
            o = o.volume_label(lab);
        }
        if let Some(b) = v.get("sectors").and_then(Value::as_u64) {
            o = o.total_sectors(b as u32);
        }
        o
    })
    .map_err(|_| LAST_PANIC.with(|p| p.borrow().clone()))
}

thread_local! {
    static BASE_CACHE: RefCell<HashMap<String, Image>> = RefCell::new(HashMap::new());
}

/// build the initial image of a program from its `vol` description
pub fn make_volume(vol: &Value) -> Result<Image, String> {
    let key = vol.to_string();
    if let Some(img) = BASE_CACHE.with(|c| c.borrow().get(&key).cloned()) {
        return Ok(img);
    }
    let kind = vol.get("kind").and_then(Value::as_str).unwrap_or("format");
    let tail = vol.get("tail").and_then(Value::as_u64).unwrap_or(0);
    let mut img = match kind {
        "format" => {
            let size = vol.get("size").and_then(Value::as_u64).ok_or("vol.size missing")?;
            let bps = vol.get("bps").and_then(Value::as_u64).unwrap_or(512);
            let mut v2 = vol.clone();
            v2["sectors"] = json!(size / bps);
            let opts = format_options(&v2)?;
            let mut img = Image::new(size + tail);
            if tail > 0 {
                img.fill(size, tail, 0xA5);
            }
            // a medium that was in use before (quick format): formatting must not rely on finding zeros
            if let Some(pf) = vol.get("prefill").and_then(Value::as_u64) {
                img.fill(0, size.min(48 << 20), pf as u8);
            }
            let mut dev = SimDevice::new(img);
            dev.0.borrow_mut().observe = true;
            let r = catch_unwind(AssertUnwindSafe(|| fatfs::format_volume(&mut dev, opts)));
            match r {
                Ok(Ok(())) => {}
                Ok(Err(e)) => return Err(format!("format failed: {:?}", e)),
                Err(_) => return Err(format!("format panicked: {}", LAST_PANIC.with(|p| p.borrow().clone()))),
            }
            dev.image()
        }
        "file" => {
            let path = vol.get("path").and_then(Value::as_str).ok_or("vol.path missing")?;
            let data = std::fs::read(path).map_err(|e| format!("{}: {}", path, e))?;
            let mut img = Image::new(data.len() as u64 + tail);
            img.write_at(0, &data);
            if tail > 0 {
                img.fill(data.len() as u64, tail, 0xA5);
            }
            img
        }
        "builder" => builder::build(vol)?,
        _ => return Err(format!("unknown vol kind {}", kind)),
    };
    if let Some(patches) = vol.get("patch").and_then(Value::as_array) {
        for p in patches {
            apply_patch(&mut img, p);
        }
    }
    BASE_CACHE.with(|c| c.borrow_mut().insert(key, img.clone()));
    Ok(img)
}

/// one modification of an unmounted image by "someone else": `[offset, [bytes]]`, or `{"fat1_and": mask}` = the shutdown / error bits
/// other implementations keep in table entry 1 (FAT16: bits 15, 14; FAT32: bits 27, 26), cleared in every copy
fn apply_patch(img: &mut Image, p: &Value) {
    if let Some(mask) = p.get("fat1_and").and_then(Value::as_u64) {
        if let Some(g) = Geo::parse(img) {
            for k in 0..g.nfats {
                let base = (g.rsvd + k * g.spf) * g.bps;
                if g.ft == 32 {
                    let v = img.u32_at(base + 4) & (mask as u32);
                    img.write_at(base + 4, &v.to_le_bytes());
                } else if g.ft == 16 {
                    let v = img.u16_at(base + 2) & (mask as u16);
                    img.write_at(base + 2, &v.to_le_bytes());
                }
            }
        }
        return;
    }
    let off = p[0].as_u64().unwrap_or(0);
    let bytes: Vec<u8> = p[1].as_array().map(|a| a.iter().map(|x| x.as_u64().unwrap_or(0) as u8).collect()).unwrap_or_default();
    img.write_at(off, &bytes);
}

// ------------------------------------------------------------------------------------------------
// session

pub struct Out<'w> {
    pub w: &'w mut dyn std::io::Write,
    pub prog_id: String,
    pub idx: u64,
    pub last_raw: String,
    pub last_rv: String,
    pub last_sv: String,
    pub events: u64,
    /// write-log length at the first successful flush/close (C14 crash enumeration starts there)
    pub first_flush: Option<u64>,
}

impl Out<'_> {
    pub fn emit(&mut self, mut ev: Map<String, Value>) {
        self.idx += 1;
        self.events += 1;
        ev.insert("i".into(), json!(self.idx));
        ev.insert("pid".into(), json!(self.prog_id));
        let s = serde_json::to_string(&Value::Object(ev)).unwrap();
        self.w.write_all(s.as_bytes()).unwrap();
        self.w.write_all(b"\n").unwrap();
    }
}

struct Sess<'a> {
    fs: &'a Fs,
    files: HashMap<String, FFile<'a>>,
    dirs: HashMap<String, FDir<'a>>,
}

#[derive(PartialEq, Debug)]
enum End {
    Finish,
    Unmount,
    DropFs,
    Abandon,
    Panic,
}

/// the entry of `d` whose name is `name` (exactly, or for ASCII names ignoring case) and which is of the wanted kind, found by iterating
#[cfg(feature = "has_alloc")]
fn entry_named<'a>(d: &FDir<'a>, name: &str, want_dir: bool) -> Option<fatfs::DirEntry<'a, SimDevice, Clock, Oem>> {
    if name.is_empty() || name.contains('/') {
        return None;
    }
    for e in d.iter() {
        match e {
            Ok(e) => {
                let n = e.file_name();
                if e.is_dir() == want_dir && (n == name || (name.is_ascii() && n.eq_ignore_ascii_case(name))) {
                    return Some(e);
                }
            }
            Err(_) => return None,
        }
    }
    None
}

#[cfg(not(feature = "has_alloc"))]
fn entry_named<'a>(_d: &FDir<'a>, _name: &str, _want_dir: bool) -> Option<fatfs::DirEntry<'a, SimDevice, Clock, Oem>> {
    None
}

fn sarg<'j>(op: &'j Value, k: &str) -> &'j str {
    op.get(k).and_then(Value::as_str).unwrap_or("")
}

fn iarg(op: &Value, k: &str) -> i64 {
    op.get(k).and_then(Value::as_i64).unwrap_or(0)
}

fn time_arg(v: &Value) -> Result<[u16; 7], String> {
    let a = v.as_array().ok_or("time arg")?;
    let mut t = [0u16; 7];
    for i in 0..7 {
        t[i] = a.get(i).and_then(Value::as_u64).unwrap_or(0) as u16;
    }
    Ok(t)
}

fn pattern(pat: u64, len: usize) -> Vec<u8> {
    (0..len).map(|j| ((pat as usize * 31 + j * 7 + (j >> 8) * 3) % 251 + 1) as u8).collect()
}

fn write_data(op: &Value) -> Vec<u8> {
    if let Some(a) = op.get("data").and_then(Value::as_array) {
        a.iter().map(|x| x.as_u64().unwrap_or(0) as u8).collect()
    } else {
        pattern(op.get("pat").and_then(Value::as_u64).unwrap_or(0), iarg(op, "len").max(0) as usize)
    }
}

impl<'a> Sess<'a> {
    fn dir_at(&self, at: &str) -> Result<FDir<'a>, Value> {
        if at.is_empty() {
            Ok(self.fs.root_dir())
        } else {
            self.dirs.get(at).cloned().ok_or_else(|| json!({"k":"skip","why":"no such dir handle"}))
        }
    }

    /// executes one op; returns (args echo, result)
    fn exec(&mut self, op: &Value, cfg: &Cfg, clock: &Clock) -> (Value, Value) {
        let name = sarg(op, "op");
        let mut a = Map::new();
        let res: Value = match name {
            "create_file" | "open_file" => {
                let at = sarg(op, "at");
                let path = sarg(op, "path");
                let h = sarg(op, "as");
                a.insert("at".into(), json!(at));
                a.insert("pu".into(), json!(units(path)));
                a.insert("h".into(), json!(h));
                match self.dir_at(at) {
                    Err(e) => e,
                    Ok(d) => {
                        // "via":"entry": the handle comes from DirEntry::to_file() of the listed entry with exactly this name
                        // (same meaning as open_file; falls back to it when no entry is spelled that way)
                        let via = if name == "open_file" && sarg(op, "via") == "entry" { entry_named(&d, path, false) } else { None };
                        if via.is_some() {
                            a.insert("via".into(), json!("entry"));
                        }
                        let r = match via {
                            Some(e) => Ok(e.to_file()),
                            None => if name == "create_file" { d.create_file(path) } else { d.open_file(path) },
                        };
                        match r {
                            Ok(f) => {
                                if !h.is_empty() {
                                    self.files.insert(h.to_string(), f);
                                }
                                json!({"k":"ok"})
                            }
                            Err(e) => err_json(&e),
                        }
                    }
                }
            }
            "create_dir" | "open_dir" => {
                let at = sarg(op, "at");
                let path = sarg(op, "path");
                let h = sarg(op, "as");
                a.insert("at".into(), json!(at));
                a.insert("pu".into(), json!(units(path)));
                a.insert("h".into(), json!(h));
                match self.dir_at(at) {
                    Err(e) => e,
                    Ok(d) => {
                        let via = if name == "open_dir" && sarg(op, "via") == "entry" { entry_named(&d, path, true) } else { None };
                        if via.is_some() {
                            a.insert("via".into(), json!("entry"));
                        }
                        let r = match via {
                            Some(e) => Ok(e.to_dir()),
                            None => if name == "create_dir" { d.create_dir(path) } else { d.open_dir(path) },
                        };
                        match r {
                            Ok(nd) => {
                                if !h.is_empty() {
                                    self.dirs.insert(h.to_string(), nd);
                                }
                                json!({"k":"ok"})
                            }
                            Err(e) => err_json(&e),
                        }
                    }
                }
            }
            "remove" => {
                let at = sarg(op, "at");
                let path = sarg(op, "path");
                a.insert("at".into(), json!(at));
                a.insert("pu".into(), json!(units(path)));
                match self.dir_at(at) {
                    Err(e) => e,
                    Ok(d) => match d.remove(path) {
                        Ok(()) => json!({"k":"ok"}),
                        Err(e) => err_json(&e),
                    },
                }
            }
            "rename" => {
                let at = sarg(op, "at");
                let to = sarg(op, "to");
                let src = sarg(op, "src");
                let dst = sarg(op, "dst");
                a.insert("at".into(), json!(at));
                a.insert("to".into(), json!(to));
                a.insert("su".into(), json!(units(src)));
                a.insert("du".into(), json!(units(dst)));
                match (self.dir_at(at), self.dir_at(to)) {
                    (Ok(d), Ok(t)) => match d.rename(src, &t, dst) {
                        Ok(()) => json!({"k":"ok"}),
                        Err(e) => err_json(&e),
                    },
                    (Err(e), _) | (_, Err(e)) => e,
                }
            }
            "list" => {
                let at = sarg(op, "at");
                let path = sarg(op, "path");
                a.insert("at".into(), json!(at));
                a.insert("pu".into(), json!(units(path)));
                match self.dir_at(at) {
                    Err(e) => e,
                    Ok(d) => {
                        let dr = if path.is_empty() { Ok(d) } else { d.open_dir(path) };
                        match dr {
                            Err(e) => err_json(&e),
                            Ok(dd) => {
                                let mut ctx = ListCtx { cell: cfg.cell, content: false, max_file_bytes: 0, max_entries: 20000, count: 0 };
                                let mut ents = Vec::new();
                                let mut err: Option<Value> = None;
                                for r in dd.iter() {
                                    match r {
                                        Ok(e) => ents.push(entry_json(&e, &[], &mut ctx).0),
                                        Err(e) => {
                                            err = Some(err_json(&e));
                                            break;
                                        }
                                    }
                                }
                                match err {
                                    Some(e) => e,
                                    None => json!({"k":"ok","ents":ents}),
                                }
                            }
                        }
                    }
                }
            }
            "read" | "read_all" => {
                let h = sarg(op, "h");
                let len = iarg(op, "len").max(0) as usize;
                a.insert("h".into(), json!(h));
                a.insert("len".into(), json!(len));
                match self.files.get_mut(h) {
                    None => json!({"k":"skip","why":"no such file handle"}),
                    Some(f) => {
                        let mut buf = vec![0u8; len];
                        let mut got = 0usize;
                        let mut calls = 0u32;
                        let mut err: Option<Value> = None;
                        loop {
                            match f.read(&mut buf[got..]) {
                                Ok(n) => {
                                    calls += 1;
                                    got += n;
                                    if n == 0 || name == "read" || got == len {
                                        break;
                                    }
                                }
                                Err(e) => {
                                    err = Some(err_json(&e));
                                    break;
                                }
                            }
                        }
                        match err {
                            Some(mut e) => {
                                e["n"] = json!(got);
                                e
                            }
                            // byte granularity is needed for reads: cells only when unit > 1
                            None => json!({"k":"ok","n":got,"d":cells(&buf[..got], cfg.cell),"calls":calls}),
                        }
                    }
                }
            }
            "write" | "write_all" => {
                let h = sarg(op, "h");
                let data = write_data(op);
                a.insert("h".into(), json!(h));
                a.insert("len".into(), json!(data.len()));
                a.insert("d".into(), json!(cells(&data, cfg.cell)));
                match self.files.get_mut(h) {
                    None => json!({"k":"skip","why":"no such file handle"}),
                    Some(f) => {
                        let mut done = 0usize;
                        let mut calls = 0u32;
                        let mut err: Option<Value> = None;
                        loop {
                            match f.write(&data[done..]) {
                                Ok(n) => {
                                    calls += 1;
                                    done += n;
                                    if n == 0 || name == "write" || done == data.len() {
                                        break;
                                    }
                                }
                                Err(e) => {
                                    // write_all repeats a piece whose write was interrupted (what Write::write_all and every caller
                                    // following the std::io conventions does)
                                    if name == "write_all" && fatfs::IoError::is_interrupted(&e) && calls < 1000 {
                                        calls += 1;
                                        continue;
                                    }
                                    err = Some(err_json(&e));
                                    break;
                                }
                            }
                        }
                        match err {
                            Some(mut e) => {
                                e["n"] = json!(done);
                                e
                            }
                            None => json!({"k":"ok","n":done,"calls":calls}),
                        }
                    }
                }
            }
            "seek" => {
                let h = sarg(op, "h");
                let from = sarg(op, "from");
                // SeekFrom::Start takes an unsigned offset
                let off = if from == "start" { iarg(op, "off").max(0) } else { iarg(op, "off") };
                a.insert("h".into(), json!(h));
                a.insert("from".into(), json!(from));
                a.insert("off".into(), json!(off));
                match self.files.get_mut(h) {
                    None => json!({"k":"skip","why":"no such file handle"}),
                    Some(f) => {
                        let sf = match from {
                            "start" => SeekFrom::Start(off.max(0) as u64),
                            "end" => SeekFrom::End(off),
                            _ => SeekFrom::Current(off),
                        };
                        match f.seek(sf) {
                            Ok(p) => json!({"k":"ok","pos":p}),
                            Err(e) => err_json(&e),
                        }
                    }
                }
            }
            "truncate" | "flush" => {
                let h = sarg(op, "h");
                a.insert("h".into(), json!(h));
                match self.files.get_mut(h) {
                    None => json!({"k":"skip","why":"no such file handle"}),
                    Some(f) => {
                        let r = if name == "truncate" { f.truncate() } else { Write::flush(f) };
                        match r {
                            Ok(()) => json!({"k":"ok"}),
                            Err(e) => err_json(&e),
                        }
                    }
                }
            }
            "clone" => {
                // File::clone: a second handle on the same file, with a copy of the cursor and of the cached entry
                let h = sarg(op, "h");
                let nh = sarg(op, "as");
                a.insert("h".into(), json!(h));
                a.insert("as".into(), json!(nh));
                match self.files.get(h).cloned() {
                    None => json!({"k":"skip","why":"no such file handle"}),
                    Some(f) => {
                        self.files.insert(nh.to_string(), f);
                        json!({"k":"ok"})
                    }
                }
            }
            "close" => {
                let h = sarg(op, "h");
                a.insert("h".into(), json!(h));
                match self.files.remove(h) {
                    None => json!({"k":"skip","why":"no such file handle"}),
                    Some(f) => {
                        drop(f);
                        json!({"k":"ok"})
                    }
                }
            }
            "closedir" => {
                let h = sarg(op, "h");
                a.insert("h".into(), json!(h));
                match self.dirs.remove(h) {
                    None => json!({"k":"skip","why":"no such dir handle"}),
                    Some(d) => {
                        drop(d);
                        json!({"k":"ok"})
                    }
                }
            }
            "set_created" | "set_modified" | "set_accessed" => {
                let h = sarg(op, "h");
                a.insert("h".into(), json!(h));
                a.insert("t".into(), op.get("t").cloned().unwrap_or(json!([])));
                match (self.files.get_mut(h), time_arg(&op["t"])) {
                    (Some(f), Ok(t)) => {
                        // Date::new / Time::new assert their ranges: generators only produce valid values
                        let date = Date::new(t[0], t[1], t[2]);
                        match name {
                            "set_accessed" => f.set_accessed(date),
                            "set_created" => f.set_created(DateTime::new(date, Time::new(t[3], t[4], t[5], t[6]))),
                            _ => f.set_modified(DateTime::new(date, Time::new(t[3], t[4], t[5], t[6]))),
                        }
                        json!({"k":"ok"})
                    }
                    _ => json!({"k":"skip","why":"no such file handle / bad time"}),
                }
            }
            "extents" => {
                let h = sarg(op, "h");
                a.insert("h".into(), json!(h));
                let geo = Geo::parse(&self.fs_image());
                match (self.files.get_mut(h), geo) {
                    (Some(f), Some(g)) => {
                        let mut exts = Vec::new();
                        let mut data: Vec<u8> = Vec::new();
                        let mut err: Option<Value> = None;
                        let img = DEV.with(|d| d.borrow().as_ref().unwrap().image());
                        for r in f.extents() {
                            match r {
                                Ok(x) => {
                                    let seg = regions(&g, x.offset, u64::from(x.size).max(1));
                                    exts.push(json!({"seg": seg, "sz": x.size}));
                                    data.extend_from_slice(&img.vec_at(x.offset, x.size as usize));
                                }
                                Err(e) => {
                                    err = Some(err_json(&e));
                                    break;
                                }
                            }
                        }
                        match err {
                            Some(e) => e,
                            None => json!({"k":"ok","ext":exts,"d":cells(&data, cfg.cell)}),
                        }
                    }
                    _ => json!({"k":"skip","why":"no such file handle"}),
                }
            }
            "stats" => match self.fs.stats() {
                Ok(s) => json!({"k":"ok","free":s.free_clusters(),"total":s.total_clusters(),"cs":s.cluster_size()}),
                Err(e) => err_json(&e),
            },
            "status" => match self.fs.read_status_flags() {
                Ok(s) => json!({"k":"ok","dirty":s.dirty(),"ioerr":s.io_error()}),
                Err(e) => err_json(&e),
            },
            "info" => {
                let mut m = Map::new();
                m.insert("k".into(), json!("ok"));
                m.insert("ft".into(), json!(ft_num(self.fs.fat_type())));
                m.insert("cs".into(), json!(self.fs.cluster_size()));
                m.insert("volid".into(), json!(self.fs.volume_id()));
                m.insert("vid".into(), json!([self.fs.volume_id() & 0xFFFF, self.fs.volume_id() >> 16]));
                m.insert("label".into(), json!(self.fs.volume_label_as_bytes()));
                #[cfg(feature = "has_alloc")]
                m.insert("labels".into(), json!(units(&self.fs.volume_label())));
                match self.fs.read_volume_label_from_root_dir_as_bytes() {
                    Ok(Some(l)) => {
                        m.insert("rlabel".into(), json!(l));
                        // the String-returning variant must name the same entry
                        #[cfg(feature = "has_alloc")]
                        match self.fs.read_volume_label_from_root_dir() {
                            Ok(Some(s)) => {
                                m.insert("rlabels".into(), json!(units(&s)));
                            }
                            Ok(None) => {
                                m.insert("rlabels".into(), json!("none"));
                            }
                            Err(e) => {
                                return (Value::Object(a), err_json(&e));
                            }
                        }
                    }
                    Ok(None) => {
                        m.insert("rlabel".into(), json!([]));
                    }
                    Err(e) => {
                        return (Value::Object(a), err_json(&e));
                    }
                }
                Value::Object(m)
            }
            "clock" => {
                match time_arg(&op["t"]) {
                    Ok(t) => {
                        clock.0.set(t);
                        a.insert("t".into(), op["t"].clone());
                        json!({"k":"ok"})
                    }
                    Err(_) => json!({"k":"skip","why":"bad time"}),
                }
            }
            _ => json!({"k":"skip","why":format!("unknown op {}", name)}),
        };
        (Value::Object(a), res)
    }

    fn fs_image(&self) -> Image {
        DEV.with(|d| d.borrow().as_ref().unwrap().image())
    }
}

thread_local! {
    static DEV: RefCell<Option<SimDevice>> = RefCell::new(None);
}

pub fn fs_options(cfg: &Cfg, clock: &Clock) -> FsOptions<Clock, Oem> {
    // the options are independent: every order of the builder calls means the same (cfg "optord" picks one; a setter that is not
    // needed for the requested value may also be left out)
    let ord = cfg.j.get("optord").and_then(Value::as_u64).unwrap_or(0);
    match ord % 5 {
        0 => FsOptions::new().time_provider(clock.clone()).oem_cp_converter(cfg.oem).update_accessed_date(cfg.atime).strict(cfg.strict),
        1 => FsOptions::new().strict(cfg.strict).update_accessed_date(cfg.atime).time_provider(clock.clone()).oem_cp_converter(cfg.oem),
        2 => FsOptions::new().update_accessed_date(cfg.atime).oem_cp_converter(cfg.oem).strict(cfg.strict).time_provider(clock.clone()),
        3 => {
            // defaults left alone (strict = true, access-date updating off are the documented defaults)
            let o = FsOptions::new().oem_cp_converter(cfg.oem).time_provider(clock.clone());
            let o = if cfg.strict { o } else { o.strict(false) };
            if cfg.atime { o.update_accessed_date(true) } else { o }
        }
        _ => FsOptions::new().strict(cfg.strict).time_provider(clock.clone()).update_accessed_date(cfg.atime).oem_cp_converter(cfg.oem),
    }
}

/// remount view: mount a clone of the image and list everything through the library
pub fn remount_view(img: &Image, cfg: &Cfg) -> Value {
    let dev = SimDevice::new(img.clone());
    dev.0.borrow_mut().observe = true;
    let clock = Clock(Rc::new(Cell::new([1980, 1, 1, 0, 0, 0, 0])));
    let mut c2 = cfg.clone();
    c2.atime = false;
    let r = catch_unwind(AssertUnwindSafe(|| match FileSystem::new(dev.clone(), fs_options(&c2, &clock)) {
        Ok(fs) => {
            let st = fs.read_status_flags();
            let v = list_tree(&fs, cfg.cell, true);
            let stj = match st {
                Ok(s) => json!({"dirty": s.dirty(), "ioerr": s.io_error()}),
                Err(e) => err_json(&e),
            };
            // (the view is taken on a clone of the image: whatever dropping writes goes nowhere; forgetting would leak the clone)
            drop(fs);
            json!({"ok": true, "tree": v, "flags": stj})
        }
        Err(e) => json!({"ok": false, "err": err_json(&e)}),
    }));
    match r {
        Ok(v) => v,
        Err(_) => json!({"ok": false, "err": {"k":"panic","msg": LAST_PANIC.with(|p| p.borrow().clone())}}),
    }
}

fn devlog_json(dev: &SimDevice, geo: &Option<Geo>) -> (Value, u64, u64, Value) {
    let d = dev.0.borrow();
    let mut w = Vec::new();
    let mut nw = 0u64;
    let mut beyond = Vec::new();
    for c in d.log.iter() {
        if c.kind == CallKind::Write {
            nw += 1;
            if let Some(g) = geo {
                for mut seg in regions(g, c.off, c.len.max(1)) {
                    if c.in_drop {
                        seg["drop"] = json!(true);
                    }
                    w.push(seg);
                }
            }
        }
    }
    for c in d.beyond.iter() {
        beyond.push(json!({"kind": c.kind.name(), "len": c.len}));
    }
    let w = coalesce(w);
    (Value::Array(w), nw, d.calls, Value::Array(beyond))
}

pub fn run_program(prog: &Value, w: &mut dyn std::io::Write) -> u64 {
    let cfg = Cfg::from_json(prog.get("cfg").unwrap_or(&json!({})));
    let prog_id = prog.get("id").map(|v| v.as_str().map(str::to_string).unwrap_or(v.to_string())).unwrap_or_default();
    let mut out = Out { w, prog_id, idx: 0, last_raw: String::new(), last_rv: String::new(), last_sv: String::new(), events: 0, first_flush: None };
    let ops: Vec<Value> = prog.get("ops").and_then(Value::as_array).cloned().unwrap_or_default();
    let fault = prog.get("fault").cloned();
    let vol = cfg.j.get("vol").cloned().unwrap_or(json!({}));
    let img = match make_volume(&vol) {
        Ok(i) => i,
        Err(e) => {
            let mut ev = Map::new();
            ev.insert("op".into(), json!("begin"));
            ev.insert("r".into(), json!({"k":"skip","why":e}));
            out.emit(ev);
            return out.events;
        }
    };
    let geo = Geo::parse(&img);
    let dev = SimDevice::new(img);
    {
        let mut d = dev.0.borrow_mut();
        if let Some(g) = &geo {
            d.vol_end = g.vol_bytes().min(d.img.size);
        }
        if let Some(ve) = vol.get("size").and_then(Value::as_u64) {
            d.vol_end = ve;
        }
        d.record_wlog = cfg.wlog;
        d.budget = cfg.budget;
        if cfg.short != 0 {
            d.short = Some(cfg.short | 1);
        }
    }
    DEV.with(|d| *d.borrow_mut() = Some(dev.clone()));
    let clock = Clock(Rc::new(Cell::new([2020, 6, 15, 12, 30, 30, 500])));
    let dopts = DecodeOpts { cell: cfg.cell, max_file_bytes: 1 << 20, with_files: true };

    // begin event: configuration + initial raw
    {
        let mut ev = Map::new();
        ev.insert("op".into(), json!("begin"));
        ev.insert("cfg".into(), cfg.j.clone());
        ev.insert("feat".into(), json!(crate::FEATURE));
        ev.insert("r".into(), json!({"k":"ok"}));
        ev.insert("clk".into(), json!(clock.0.get()));
        let raw = decode(&dev.image(), &dopts);
        out.last_raw = raw.to_string();
        ev.insert("raw".into(), raw);
        if cfg.obs_rv {
            let rv = remount_view(&dev.image(), &cfg);
            out.last_rv = rv.to_string();
            ev.insert("rv".into(), rv);
        }
        if vol.get("kind").and_then(Value::as_str) == Some("builder") {
            if let Some(t) = builder::TRUTH.with(|t| t.borrow().get(&vol.to_string()).cloned()) {
                ev.insert("truth".into(), t);
            }
        }
        if let Some(o) = prog.get("origin") {
            ev.insert("origin".into(), o.clone());
        }
        out.emit(ev);
    }

    let mut pc = 0usize;
    let mut first_mount = true;
    let mut stop_after = false;
    'outer: loop {
        if pc >= ops.len() && !first_mount {
            break;
        }
        first_mount = false;
        // ---- mount
        dev.begin_op();
        dev.0.borrow_mut().pos = 0;
        let mount_fault = fault.as_ref().filter(|f| f["at"].as_i64() == Some(-1 - pc as i64));
        if let Some(f) = mount_fault {
            dev.0.borrow_mut().fault_at = f["k"].as_u64();
        }
        let mr = catch_unwind(AssertUnwindSafe(|| FileSystem::new(dev.clone(), fs_options(&cfg, &clock))));
        dev.0.borrow_mut().fault_at = None;
        let mut ev = Map::new();
        ev.insert("op".into(), json!("mount"));
        let fs = match mr {
            Ok(Ok(fs)) => {
                ev.insert("r".into(), json!({"k":"ok","ft":ft_num(fs.fat_type()),"cs":fs.cluster_size()}));
                Some(fs)
            }
            Ok(Err(e)) => {
                ev.insert("r".into(), err_json(&e));
                None
            }
            Err(_) => {
                ev.insert("r".into(), json!({"k":"panic","msg":LAST_PANIC.with(|p| p.borrow().clone())}));
                None
            }
        };
        finish_event(&mut ev, &dev, &geo, &cfg, &dopts, &mut out, None, &clock);
        out.emit(ev);
        let Some(fs) = fs else { break 'outer };

        // ---- session
        let end = {
            let mut sess = Sess { fs: &fs, files: HashMap::new(), dirs: HashMap::new() };
            let mut end = End::Finish;
            while pc < ops.len() {
                let op = &ops[pc];
                let this_pc = pc;
                pc += 1;
                let name = sarg(op, "op");
                match name {
                    "unmount" => {
                        end = End::Unmount;
                        break;
                    }
                    "dropfs" => {
                        end = End::DropFs;
                        break;
                    }
                    "abandon" => {
                        end = End::Abandon;
                        break;
                    }
                    _ => {}
                }
                dev.begin_op();
                if let Some(f) = fault.as_ref() {
                    if f["at"].as_i64() == Some(this_pc as i64) {
                        let mut d = dev.0.borrow_mut();
                        d.fault_at = f["k"].as_u64();
                        // {"flush": true}: the device flush of this call fails; {"intr": true}: with a transient "interrupted" error
                        d.fault_flush = f.get("flush").and_then(Value::as_bool) == Some(true);
                        d.fault_intr = f.get("intr").and_then(Value::as_bool) == Some(true);
                    }
                }
                let r = catch_unwind(AssertUnwindSafe(|| sess.exec(op, &cfg, &clock)));
                {
                    let mut d = dev.0.borrow_mut();
                    d.fault_at = None;
                    d.fault_flush = false;
                    d.fault_intr = false;
                }
                let mut ev = Map::new();
                ev.insert("op".into(), json!(name));
                let panicked = match r {
                    Ok((a, res)) => {
                        ev.insert("a".into(), a);
                        let res = if dev.0.borrow().budget_tripped { json!({"k":"hang"}) } else { res };
                        ev.insert("r".into(), res);
                        false
                    }
                    Err(_) => {
                        ev.insert("a".into(), op.clone());
                        ev.insert("r".into(), json!({"k":"panic","msg":LAST_PANIC.with(|p| p.borrow().clone())}));
                        true
                    }
                };
                if name == "clock" {
                    ev.insert("clk".into(), json!(clock.0.get()));
                }
                if let Some(t) = op.get("tag") {
                    ev.insert("tag".into(), t.clone());
                }

                let hung = dev.0.borrow().budget_tripped;
                finish_event(&mut ev, &dev, &geo, &cfg, &dopts, &mut out, if panicked || hung { None } else { Some(&fs) }, &clock);
                if cfg.wlog && out.first_flush.is_none() && (name == "flush" || name == "close") && ev["r"]["k"] == "ok" {
                    out.first_flush = ev.get("fm").and_then(Value::as_u64);
                }
                out.emit(ev);
                // after an injected device fault the state is not trusted any more: stop here
                let faulted = dev.0.borrow().fault_hit.is_some()
                    && fault.as_ref().and_then(|f| f.get("continue")).and_then(Value::as_bool) != Some(true);
                if panicked || hung || faulted {
                    end = End::Panic;
                    stop_after = faulted;
                    break;
                }
            }
            if end == End::Panic {
                for (_, f) in sess.files.drain() {
                    std::mem::forget(f);
                }
                for (_, d) in sess.dirs.drain() {
                    std::mem::forget(d);
                }
            } else {
                // close everything that is still open (drop = flush)
                dev.begin_op();
                let n_open = sess.files.len();
                let mut names: Vec<String> = sess.files.keys().cloned().collect();
                names.sort();
                for k in names.iter() {
                    let f = sess.files.remove(k);
                    drop(f);
                }
                sess.dirs.clear();
                if n_open > 0 {
                    let mut ev = Map::new();
                    ev.insert("op".into(), json!("close_all"));
                    ev.insert("a".into(), json!({"hs": names}));
                    ev.insert("r".into(), json!({"k":"ok"}));
                    finish_event(&mut ev, &dev, &geo, &cfg, &dopts, &mut out, Some(&fs), &clock);
                    out.emit(ev);
                }
            }
            end
        };
        // ---- unmount / drop / abandon
        dev.begin_op();
        dev.0.borrow_mut().budget_tripped = false;
        let mut ev = Map::new();
        let unmount_fault = fault.as_ref().filter(|f| f["at"].as_i64() == Some(pc as i64 - 1) && end != End::Finish);
        if let Some(f) = unmount_fault {
            let mut d = dev.0.borrow_mut();
            d.fault_at = f["k"].as_u64();
            d.fault_sticky = f.get("sticky").and_then(Value::as_bool) == Some(true);
        }
        match end {
            End::Unmount => {
                ev.insert("op".into(), json!("unmount"));
                let r = catch_unwind(AssertUnwindSafe(|| fs.unmount()));
                ev.insert(
                    "r".into(),
                    match r {
                        Ok(Ok(())) => json!({"k":"ok"}),
                        Ok(Err(e)) => err_json(&e),
                        Err(_) => json!({"k":"panic","msg":LAST_PANIC.with(|p| p.borrow().clone())}),
                    },
                );
            }
            End::DropFs | End::Finish => {
                ev.insert("op".into(), json!("dropfs"));
                let r = catch_unwind(AssertUnwindSafe(|| drop(fs)));
                ev.insert("r".into(), if r.is_ok() { json!({"k":"ok"}) } else { json!({"k":"panic","msg":LAST_PANIC.with(|p| p.borrow().clone())}) });
            }
            End::Abandon | End::Panic => {
                ev.insert("op".into(), json!(if end == End::Abandon { "abandon" } else { "abandon_after_panic" }));
                std::mem::forget(fs);
                ev.insert("r".into(), json!({"k":"ok"}));
            }
        }
        dev.0.borrow_mut().fault_at = None;
        dev.0.borrow_mut().fault_sticky = false;
        finish_event(&mut ev, &dev, &geo, &cfg, &dopts, &mut out, None, &clock);
        out.emit(ev);
        let go_on = fault.as_ref().and_then(|f| f.get("continue")).and_then(Value::as_bool) == Some(true);
        if end == End::Finish || stop_after || (dev.0.borrow().fault_hit.is_some() && !go_on) {
            break;
        }
        // optional harness-side modification of the unmounted image ("someone else touched the volume")
        if let Some(pokes) = ops.get(pc.wrapping_sub(1)).and_then(|o| o.get("poke")).and_then(Value::as_array) {
            dev.begin_op();
            {
                let mut d = dev.0.borrow_mut();
                for p in pokes {
                    apply_patch(&mut d.img, p);
                }
            }
            let mut ev = Map::new();
            ev.insert("op".into(), json!("poke"));
            ev.insert("a".into(), json!({"poke": pokes}));
            ev.insert("r".into(), json!({"k":"ok"}));
            finish_event(&mut ev, &dev, &geo, &cfg, &dopts, &mut out, None, &clock);
            out.emit(ev);
        }
    }
    // crash-image enumeration (C14), if requested
    if prog.get("crash").is_some() {
        crate::crash::enumerate(prog, &dev, &cfg, &mut out);
    }
    let mut ev = Map::new();
    ev.insert("op".into(), json!("end"));
    ev.insert("r".into(), json!({"k":"ok"}));
    out.emit(ev);
    DEV.with(|d| *d.borrow_mut() = None);
    out.events
}

/// adds the post-state observations to an event
#[allow(clippy::too_many_arguments)]
fn finish_event(
    ev: &mut Map<String, Value>,
    dev: &SimDevice,
    geo: &Option<Geo>,
    cfg: &Cfg,
    dopts: &DecodeOpts,
    out: &mut Out,
    sess_fs: Option<&Fs>,
    _clock: &Clock,
) {
    let (w, nw, calls, beyond) = devlog_json(dev, geo);
    ev.insert("w".into(), w);
    ev.insert("nw".into(), json!(nw));
    ev.insert("calls".into(), json!(calls));
    if beyond.as_array().map_or(false, |a| !a.is_empty()) {
        ev.insert("beyond".into(), beyond);
    }
    {
        let d = dev.0.borrow();
        if let Some(h) = &d.fault_hit {
            ev.insert("flt".into(), json!({"kind": h.kind.name(), "drop": h.in_drop, "n": d.calls, "intr": d.fault_hit_intr}));
        }
        if cfg.wlog {
            ev.insert("wl".into(), json!(d.wlog.len()));
            // position just after the last flush the storage has seen: everything before it is durable
            let fm = d.wlog.iter().rposition(|r| matches!(r, crate::dev::WlogRec::Flush)).map_or(0, |p| p + 1);
            ev.insert("fm".into(), json!(fm));
        }
    }
    dev.0.borrow_mut().observe = true;
    let saved_pos = dev.0.borrow().pos;
    let img = dev.image();
    if cfg.j.get("digest").and_then(Value::as_bool) == Some(true) {
        // image digest as two 31-bit halves (C19: byte-identical images across feature builds)
        let d = img.digest();
        ev.insert("dg".into(), json!([(d >> 33) & 0x7FFF_FFFF, d & 0x7FFF_FFFF]));
    }
    if cfg.obs_raw {
        let raw = decode(&img, dopts);
        let s = raw.to_string();
        if s != out.last_raw {
            out.last_raw = s;
            ev.insert("raw".into(), raw);
        }
    }
    if cfg.obs_rv {
        let rv = remount_view(&img, cfg);
        let s = rv.to_string();
        if s != out.last_rv {
            out.last_rv = s;
            ev.insert("rv".into(), rv);
        }
    }
    if cfg.obs_sv {
        if let Some(fs) = sess_fs {
            let sv = list_tree(fs, cfg.cell, false);
            let s = sv.to_string();
            if s != out.last_sv {
                out.last_sv = s;
                ev.insert("sv".into(), sv);
            }
        }
    }
    // tail guard: bytes after the declared end of the volume must keep the fill pattern
    let vol_end = dev.0.borrow().vol_end;
    if img.size > vol_end {
        let tail = img.vec_at(vol_end, (img.size - vol_end).min(1 << 16) as usize);
        let ok = tail.iter().all(|b| *b == 0xA5);
        ev.insert("tail".into(), json!(ok));
    }
    dev.0.borrow_mut().pos = saved_pos;
    dev.0.borrow_mut().observe = false;
}

/// merge device-write segments that touch the same region contiguously (the library writes
/// directory entries field by field); order of first occurrence is kept
fn coalesce(segs: Vec<Value>) -> Vec<Value> {
    let mut out: Vec<Value> = Vec::new();
    'next: for s in segs {
        let r = s["r"].as_str().unwrap_or("").to_string();
        for t in out.iter_mut() {
            if t["r"] != s["r"] || t.get("drop") != s.get("drop") {
                continue;
            }
            match r.as_str() {
                "boot" | "fsinfo" | "clu" => {
                    if r == "clu" && t["c"] != s["c"] {
                        continue;
                    }
                    let (to, tl) = (t["o"].as_u64().unwrap_or(0), t["l"].as_u64().unwrap_or(0));
                    let (so, sl) = (s["o"].as_u64().unwrap_or(0), s["l"].as_u64().unwrap_or(0));
                    if so <= to + tl && to <= so + sl {
                        let lo = to.min(so);
                        let hi = (to + tl).max(so + sl);
                        t["o"] = json!(lo);
                        t["l"] = json!(hi - lo);
                        continue 'next;
                    }
                }
                "fat" | "root" => {
                    if r == "fat" && t["k"] != s["k"] {
                        continue;
                    }
                    let (tlo, thi) = (t["lo"].as_i64().unwrap_or(0), t["hi"].as_i64().unwrap_or(0));
                    let (slo, shi) = (s["lo"].as_i64().unwrap_or(0), s["hi"].as_i64().unwrap_or(0));
                    if tlo < 0 || slo < 0 {
                        continue;
                    }
                    if slo <= thi + 1 && tlo <= shi + 1 {
                        t["lo"] = json!(tlo.min(slo));
                        t["hi"] = json!(thi.max(shi));
                        continue 'next;
                    }
                }
                "rsvd" => {
                    if t["s"] == s["s"] {
                        continue 'next;
                    }
                }
                _ => continue 'next, // slack / beyond: one is enough
            }
        }
        out.push(s);
    }
    out
}
