mod builder;
mod crash;
mod decode;
mod dev;
mod exec;
mod faults;
mod sweeps;

use std::io::{BufRead, BufWriter, Write};

#[cfg(all(feature = "has_alloc", feature = "ref"))]
pub const FEATURE: &str = "ref";
#[cfg(all(feature = "has_alloc", not(feature = "ref")))]
pub const FEATURE: &str = "nounicode";
#[cfg(not(feature = "has_alloc"))]
pub const FEATURE: &str = "noalloc";

fn main() {
    let args: Vec<String> = std::env::args().collect();
    if args.len() < 2 {
        eprintln!("usage: fxh run <programs.ndjson> <events.ndjson>");
        std::process::exit(2);
    }
    exec::install_panic_hook();
    match args[1].as_str() {
        "run" => {
            let inp = std::fs::File::open(&args[2]).expect("open programs");
            let out = std::fs::File::create(&args[3]).expect("create events");
            let mut w = BufWriter::with_capacity(1 << 20, out);
            let mut n_prog = 0u64;
            let mut n_ev = 0u64;
            for line in std::io::BufReader::new(inp).lines() {
                let line = line.expect("read");
                if line.trim().is_empty() {
                    continue;
                }
                let prog: serde_json::Value = serde_json::from_str(&line).expect("program json");
                n_ev += exec::run_program(&prog, &mut w);
                n_prog += 1;
            }
            w.flush().unwrap();
            println!("{{\"programs\":{},\"events\":{}}}", n_prog, n_ev);
        }
        "faults" => {
            // exhaustive single-fault enumeration (C09): for every op of every program and every k,
            // re-run the program with the k-th device call of that op failing
            let inp = std::fs::File::open(&args[2]).expect("open programs");
            let out = std::fs::File::create(&args[3]).expect("create events");
            let mut w = BufWriter::with_capacity(1 << 20, out);
            let mut n_prog = 0u64;
            let mut n_ev = 0u64;
            for line in std::io::BufReader::new(inp).lines() {
                let line = line.expect("read");
                if line.trim().is_empty() {
                    continue;
                }
                let prog: serde_json::Value = serde_json::from_str(&line).expect("program json");
                n_ev += faults::enumerate(&prog, &mut w);
                n_prog += 1;
            }
            w.flush().unwrap();
            println!("{{\"programs\":{},\"events\":{}}}", n_prog, n_ev);
        }
        "formats" | "mounts" | "dirs" => {
            let inp = std::fs::File::open(&args[2]).expect("open requests");
            let out = std::fs::File::create(&args[3]).expect("create events");
            let mut w = BufWriter::with_capacity(1 << 20, out);
            let mut n_prog = 0u64;
            let mut n_ev = 0u64;
            for line in std::io::BufReader::new(inp).lines() {
                let line = line.expect("read");
                if line.trim().is_empty() {
                    continue;
                }
                let req: serde_json::Value = serde_json::from_str(&line).expect("request json");
                n_ev += match args[1].as_str() {
                    "formats" => sweeps::formats(&req, &mut w),
                    "mounts" => sweeps::mounts(&req, &mut w),
                    _ => sweeps::dirs(&req, &mut w),
                };
                n_prog += 1;
            }
            w.flush().unwrap();
            println!("{{\"programs\":{},\"events\":{}}}", n_prog, n_ev);
        }
        #[cfg(fatfs_verif)]
        "fmtsweep" => {
            let lo: u64 = args[2].parse().expect("lo");
            let hi: u64 = args[3].parse().expect("hi");
            let out = std::fs::File::create(&args[4]).expect("create events");
            let mut w = BufWriter::with_capacity(1 << 20, out);
            let n = sweeps::fmtsweep(lo, hi, &mut w);
            w.flush().unwrap();
            println!("{{\"programs\":{},\"events\":{}}}", hi - lo + 1, n);
        }
        "foldtable" => {
            // upper-case expansion (as UTF-16 units) of every BMP scalar >= 0x80 whose upper case differs
            let mut m = serde_json::Map::new();
            for c in 0x80u32..=0xFFFF {
                if let Some(ch) = char::from_u32(c) {
                    let up: String = ch.to_uppercase().collect();
                    let u: Vec<u16> = up.encode_utf16().collect();
                    if u != vec![c as u16] {
                        m.insert(c.to_string(), serde_json::json!(u));
                    }
                }
            }
            println!("{}", serde_json::Value::Object(m));
        }
        other => {
            eprintln!("unknown command {}", other);
            std::process::exit(2);
        }
    }
}
