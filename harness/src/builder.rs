//! Independent image builder: turns an abstract volume description (the ground truth) plus
//! encoding choices into bytes, using every freedom of the FAT specification the library's own
//! writer never uses.  Shares no code with fatfs.  Returns the image and the ground truth as the
//! list of facts a reader must report.
use std::cell::RefCell;
use std::collections::{HashMap, HashSet};

use serde_json::{json, Value};

use crate::decode::cells;
use crate::dev::Image;

thread_local! {
    pub static TRUTH: RefCell<HashMap<String, Value>> = RefCell::new(HashMap::new());
}

fn u(v: &Value, k: &str, d: u64) -> u64 {
    v.get(k).and_then(Value::as_u64).unwrap_or(d)
}

fn pattern(pat: u64, len: usize) -> Vec<u8> {
    (0..len).map(|j| ((pat as usize * 31 + j * 7 + (j >> 8) * 3) % 251 + 1) as u8).collect()
}

struct Lay {
    ft: u32,
    bps: u64,
    spc: u64,
    rsvd: u64,
    nfats: u64,
    rootn: u64,
    n: u64,
    spf: u64,
    rootsecs: u64,
    first_data: u64,
    total: u64,
}

impl Lay {
    fn cs(&self) -> u64 {
        self.bps * self.spc
    }
    fn clu_off(&self, c: u64) -> u64 {
        (self.first_data + (c - 2) * self.spc) * self.bps
    }
    fn root_off(&self) -> u64 {
        (self.rsvd + self.nfats * self.spf) * self.bps
    }
    fn fat_off(&self, k: u64) -> u64 {
        (self.rsvd + k * self.spf) * self.bps
    }
    fn eoc_max(&self) -> u32 {
        match self.ft {
            12 => 0xFFF,
            16 => 0xFFFF,
            _ => 0x0FFF_FFFF,
        }
    }
    fn bad(&self) -> u32 {
        self.eoc_max() - 8
    }
}

struct Fat {
    /// cluster -> (value, hi nibble)
    ent: HashMap<u64, (u32, u32)>,
}

struct Alloc {
    free: Vec<u64>, // in allocation order (pop from the front)
    /// huge volumes: ascending on demand instead of a materialised list
    lazy: Option<(u64, u64, HashSet<u64>)>, // (next, end, taken)
}

impl Alloc {
    fn new(n: u64, policy: &str, taken: &HashSet<u64>, seed: u64) -> Alloc {
        if n > 1_000_000 {
            return Alloc { free: Vec::new(), lazy: Some((2, n + 2, taken.clone())) };
        }
        let mut v: Vec<u64> = (2..n + 2).filter(|c| !taken.contains(c)).collect();
        match policy {
            "desc" => v.reverse(),
            "interleave" => {
                let (a, b): (Vec<u64>, Vec<u64>) = v.iter().partition(|c| *c % 2 == 0);
                let mut out = Vec::new();
                let mut bi = b.into_iter().rev();
                for x in a {
                    out.push(x);
                    if let Some(y) = bi.next() {
                        out.push(y);
                    }
                }
                out.extend(bi);
                v = out;
            }
            "random" => {
                let mut s = seed | 1;
                for i in (1..v.len()).rev() {
                    s ^= s << 13;
                    s ^= s >> 7;
                    s ^= s << 17;
                    v.swap(i, (s % (i as u64 + 1)) as usize);
                }
            }
            _ => {}
        }
        Alloc { free: v, lazy: None }
    }
    fn take(&mut self, k: usize, explicit: Option<&Vec<Value>>) -> Result<Vec<u64>, String> {
        if let Some((next, end, taken)) = self.lazy.as_mut() {
            if let Some(ch) = explicit {
                let want: Vec<u64> = ch.iter().filter_map(Value::as_u64).collect();
                for c in &want {
                    if *c < 2 || *c >= *end || !taken.insert(*c) {
                        return Err(format!("explicit cluster {} not available", c));
                    }
                }
                return Ok(want);
            }
            let mut out = Vec::new();
            while out.len() < k {
                if *next >= *end {
                    return Err("volume too small for the described tree".into());
                }
                if taken.insert(*next) {
                    out.push(*next);
                }
                *next += 1;
            }
            return Ok(out);
        }
        if let Some(ch) = explicit {
            let want: Vec<u64> = ch.iter().filter_map(Value::as_u64).collect();
            for c in &want {
                match self.free.iter().position(|x| x == c) {
                    Some(p) => {
                        self.free.remove(p);
                    }
                    None => return Err(format!("explicit cluster {} not available", c)),
                }
            }
            return Ok(want);
        }
        if self.free.len() < k {
            return Err("volume too small for the described tree".into());
        }
        Ok(self.free.drain(..k).collect())
    }
}

fn lfn_checksum(raw: &[u8]) -> u8 {
    let mut c: u8 = 0;
    for b in raw {
        c = ((c & 1) << 7).wrapping_add(c >> 1).wrapping_add(*b);
    }
    c
}

fn sfn_bytes(v: &Value) -> Vec<u8> {
    if let Some(s) = v.as_str() {
        let mut b = s.as_bytes().to_vec();
        b.resize(11, b' ');
        b
    } else if let Some(a) = v.as_array() {
        let mut b: Vec<u8> = a.iter().map(|x| x.as_u64().unwrap_or(32) as u8).collect();
        b.resize(11, b' ');
        b
    } else {
        b"NONAME     ".to_vec()
    }
}

fn sfn_slot(raw: &[u8], attr: u8, nt: u8, cl: u64, size: u64, ct: (u16, u16, u8), mt: (u16, u16), ad: u16) -> [u8; 32] {
    let mut s = [0u8; 32];
    s[..11].copy_from_slice(&raw[..11]);
    s[11] = attr;
    s[12] = nt;
    s[13] = ct.2;
    s[14..16].copy_from_slice(&ct.1.to_le_bytes());
    s[16..18].copy_from_slice(&ct.0.to_le_bytes());
    s[18..20].copy_from_slice(&ad.to_le_bytes());
    s[20..22].copy_from_slice(&(((cl >> 16) & 0xFFFF) as u16).to_le_bytes());
    s[22..24].copy_from_slice(&mt.1.to_le_bytes());
    s[24..26].copy_from_slice(&mt.0.to_le_bytes());
    s[26..28].copy_from_slice(&((cl & 0xFFFF) as u16).to_le_bytes());
    s[28..32].copy_from_slice(&(size as u32).to_le_bytes());
    s
}

pub fn lfn_slot(ord: u8, chk: u8, units: &[u16], ty: u8, cl: u16, attr: u8) -> [u8; 32] {
    let mut s = [0u8; 32];
    s[0] = ord;
    for k in 0..5 {
        s[1 + 2 * k..3 + 2 * k].copy_from_slice(&units[k].to_le_bytes());
    }
    s[11] = attr;
    s[12] = ty;
    s[13] = chk;
    for k in 0..6 {
        s[14 + 2 * k..16 + 2 * k].copy_from_slice(&units[5 + k].to_le_bytes());
    }
    s[26..28].copy_from_slice(&cl.to_le_bytes());
    for k in 0..2 {
        s[28 + 2 * k..30 + 2 * k].copy_from_slice(&units[11 + k].to_le_bytes());
    }
    s
}

/// slots of a well-formed long-name run for `name` (first slot on disk = last part)
fn lfn_run(name: &[u16], chk: u8) -> Vec<[u8; 32]> {
    let n = (name.len() + 12) / 13;
    let mut padded: Vec<u16> = name.to_vec();
    if padded.len() % 13 != 0 {
        padded.push(0);
        while padded.len() % 13 != 0 {
            padded.push(0xFFFF);
        }
    }
    let mut out = Vec::new();
    for k in (0..n).rev() {
        let ord = (k as u8 + 1) | if k == n - 1 { 0x40 } else { 0 };
        out.push(lfn_slot(ord, chk, &padded[k * 13..k * 13 + 13], 0, 0, 0x0F));
    }
    out
}

fn dos_date(v: Option<&Value>, dflt: u16) -> u16 {
    v.and_then(Value::as_u64).map(|x| x as u16).unwrap_or(dflt)
}

fn decode_date(d: u16) -> Value {
    json!([(d >> 9) + 1980, (d >> 5) & 0xF, d & 0x1F])
}

fn decode_dt(d: u16, t: u16, tenths: u8) -> Value {
    json!([(d >> 9) + 1980, (d >> 5) & 0xF, d & 0x1F, t >> 11, (t >> 5) & 0x3F, (t & 0x1F) * 2 + u16::from(tenths / 100), u16::from(tenths % 100) * 10])
}

fn display_name(raw: &[u8], nt: u8, oem: &str) -> Vec<u16> {
    let mut r = raw.to_vec();
    if nt & 0x08 != 0 {
        for b in r[..8].iter_mut() {
            b.make_ascii_lowercase();
        }
    }
    if nt & 0x10 != 0 {
        for b in r[8..11].iter_mut() {
            b.make_ascii_lowercase();
        }
    }
    let base_len = r[..8].iter().rposition(|x| *x != b' ').map_or(0, |p| p + 1);
    let ext_len = r[8..11].iter().rposition(|x| *x != b' ').map_or(0, |p| p + 1);
    let mut out: Vec<u8> = r[..base_len].to_vec();
    if !out.is_empty() && out[0] == 0x05 {
        out[0] = 0xE5;
    }
    if ext_len > 0 {
        out.push(b'.');
        out.extend_from_slice(&r[8..8 + ext_len]);
    }
    out.iter().map(|b| if *b < 0x80 { u16::from(*b) } else if oem == "latin1" { u16::from(*b) } else { 0xFFFD }).collect()
}

struct Ctx<'a> {
    lay: &'a Lay,
    img: Image,
    fat: Fat,
    alloc: Alloc,
    eocs: Vec<u32>,
    eoc_i: usize,
    hi_mode: String,
    truth: Vec<Value>,
    cell: usize,
    oem: String,
}

impl Ctx<'_> {
    /// FAT12/FAT16 only: the word at offset 20 of a short entry is not part of the cluster number there; other systems keep an
    /// extended-attribute handle or access rights in it (`"ea": n` on a tree entry)
    fn ea_word(&self, e: &Value, slot: &mut [u8; 32]) {
        if self.lay.ft != 32 {
            if let Some(v) = e.get("ea").and_then(Value::as_u64) {
                slot[20..22].copy_from_slice(&(v as u16).to_le_bytes());
            }
        }
    }

    fn link(&mut self, chain: &[u64]) {
        for (i, c) in chain.iter().enumerate() {
            let v = if i + 1 < chain.len() {
                chain[i + 1] as u32
            } else {
                let e = self.eocs[self.eoc_i % self.eocs.len()];
                self.eoc_i += 1;
                e
            };
            let hi = if self.lay.ft == 32 && self.hi_mode == "pattern" { ((*c * 7 + 3) % 16) as u32 } else { 0 };
            self.fat.ent.insert(*c, (v, hi));
        }
    }

    /// lays out one directory; returns nothing, appends truth facts
    fn dir(&mut self, entries: &[Value], path: &[Vec<u16>], own: Option<(&[u64], u64)>, fixed_root: bool, noend: bool) -> Result<(), String> {
        // own = (chain, parent cluster for "..") for cluster directories
        let mut slots: Vec<[u8; 32]> = Vec::new();
        let cs = self.lay.cs();
        if let Some((chain, parent)) = own {
            if !path.is_empty() {
                let dot = sfn_slot(b".          ", 0x10, 0, chain[0], 0, (0x5021, 0x6000, 0), (0x5021, 0x6000), 0x5021);
                let dotdot = sfn_slot(b"..         ", 0x10, 0, parent, 0, (0x5021, 0x6000, 0), (0x5021, 0x6000), 0x5021);
                slots.push(dot);
                slots.push(dotdot);
            }
        }
        // children are laid out after this directory's slots are known (clusters allocated first)
        let mut pending: Vec<(Vec<Value>, Vec<Vec<u16>>, Vec<u64>, bool)> = Vec::new();
        for e in entries {
            let kind = e.get("kind").and_then(Value::as_str).unwrap_or("f");
            let raw = sfn_bytes(e.get("sfn").unwrap_or(&Value::Null));
            let nt = u(e, "nt", 0) as u8;
            let mut attr = u(e, "attr", if kind == "d" { 0x10 } else if kind == "v" { 0x08 } else { 0x20 }) as u8;
            if kind == "d" {
                attr |= 0x10;
            }
            // junk before the entry
            if let Some(pre) = e.get("pre").and_then(Value::as_array) {
                for j in pre {
                    match j.get("t").and_then(Value::as_str).unwrap_or("del") {
                        "del" => {
                            let mut s = [0u8; 32];
                            s[0] = 0xE5;
                            for k in 1..32 {
                                s[k] = (u(j, "fill", 0x41) as u8).wrapping_add(k as u8);
                            }
                            s[11] = u(j, "attr", 0x20) as u8;
                            slots.push(s);
                        }
                        "raw" => {
                            let mut s = [0u8; 32];
                            if let Some(b) = j.get("b").and_then(Value::as_array) {
                                for (k, x) in b.iter().take(32).enumerate() {
                                    s[k] = x.as_u64().unwrap_or(0) as u8;
                                }
                            }
                            slots.push(s);
                        }
                        "orphan" => {
                            // a long-name run that belongs to nothing (deleted owner): slots marked deleted
                            let name: Vec<u16> = j.get("name").and_then(Value::as_str).unwrap_or("orphan").encode_utf16().collect();
                            for mut s in lfn_run(&name, u(j, "chk", 0x55) as u8) {
                                if j.get("live").and_then(Value::as_bool) != Some(true) {
                                    s[0] = 0xE5;
                                }
                                slots.push(s);
                            }
                        }
                        _ => {}
                    }
                }
            }
            let ct = (dos_date(e.get("cd"), 0x5021), dos_date(e.get("ctm"), 0x6000), u(e, "cth", 0) as u8);
            let mt = (dos_date(e.get("md"), 0x5021), dos_date(e.get("mtm"), 0x6000));
            let ad = dos_date(e.get("ad"), 0x5021);
            let long: Option<Vec<u16>> = e.get("name").and_then(Value::as_str).map(|s| s.encode_utf16().collect());
            let shown: Vec<u16> = match &long {
                Some(l) => l.clone(),
                None => display_name(&raw, nt, &self.oem),
            };
            let mut p: Vec<Vec<u16>> = path.to_vec();
            p.push(shown.clone());
            if let Some(l) = &long {
                let chk = lfn_checksum(&raw);
                for s in lfn_run(l, chk) {
                    slots.push(s);
                }
            }
            match kind {
                "v" => {
                    slots.push(sfn_slot(&raw, attr, nt, 0, 0, ct, mt, ad));
                }
                "d" => {
                    let kids: Vec<Value> = e.get("children").and_then(Value::as_array).cloned().unwrap_or_default();
                    // size the directory: dot entries + each child (junk + lfn + sfn) + END, rounded up
                    let mut need = 2u64;
                    for k in &kids {
                        need += 1 + k.get("name").and_then(Value::as_str).map_or(0, |s| (s.encode_utf16().count() as u64 + 12) / 13);
                        need += k.get("pre").and_then(Value::as_array).map_or(0, |a| a.len() as u64 * 4);
                    }
                    let extra = u(e, "extra_clusters", 0);
                    let k = ((need + 1) * 32 + cs - 1) / cs + extra;
                    let chain = self.alloc.take(k as usize, e.get("chain").and_then(Value::as_array))?;
                    self.link(&chain);
                    slots.push(sfn_slot(&raw, attr, nt, chain[0], 0, ct, mt, ad));
                    self.ea_word(e, slots.last_mut().unwrap());
                    self.truth.push(json!({"p": p, "k": "d", "at": attr, "ct": decode_dt(ct.0, ct.1, ct.2), "mt": decode_dt(mt.0, mt.1, 0), "ad": decode_date(ad), "c": []}));
                    pending.push((kids, p, chain, e.get("noend").and_then(Value::as_bool).unwrap_or(false)));
                }
                _ => {
                    let size = u(e, "size", 0);
                    let data = pattern(u(e, "pat", 1), size as usize);
                    let k = ((size + cs - 1) / cs) as usize;
                    let chain = if k > 0 { self.alloc.take(k, e.get("chain").and_then(Value::as_array))? } else { Vec::new() };
                    self.link(&chain);
                    for (i, c) in chain.iter().enumerate() {
                        let lo = i * cs as usize;
                        let hi = ((i + 1) * cs as usize).min(data.len());
                        self.img.write_at(self.lay.clu_off(*c), &data[lo..hi]);
                        // slack after the end of the file inside its last cluster: arbitrary bytes are legal
                        if hi - lo < cs as usize && e.get("slack").and_then(Value::as_bool) == Some(true) {
                            let junk = vec![0xCCu8; cs as usize - (hi - lo)];
                            self.img.write_at(self.lay.clu_off(*c) + (hi - lo) as u64, &junk);
                        }
                    }
                    // "recsize": the size field of the entry says more than the chain holds (what a crash or a careless writer leaves on a
                    // volume that is then marked dirty): NOT a valid volume, used only where a property does not presuppose validity
                    let size = u(e, "recsize", size);
                    slots.push(sfn_slot(&raw, attr, nt, chain.first().copied().unwrap_or(0), size, ct, mt, ad));
                    self.ea_word(e, slots.last_mut().unwrap());
                    self.truth.push(json!({"p": p, "k": "f", "at": attr, "sz": size, "ct": decode_dt(ct.0, ct.1, ct.2), "mt": decode_dt(mt.0, mt.1, 0),
                                           "ad": decode_date(ad), "c": cells(&data, self.cell), "chain": chain}));
                }
            }
        }
        // write the slots
        let cap: u64 = if fixed_root { self.lay.rootn } else { own.map_or(0, |(ch, _)| ch.len() as u64 * cs / 32) };
        if slots.len() as u64 > cap {
            return Err(format!("directory needs {} slots, has {}", slots.len(), cap));
        }
        for (i, s) in slots.iter().enumerate() {
            let off = if fixed_root {
                self.lay.root_off() + i as u64 * 32
            } else {
                let ch = own.unwrap().0;
                let per = cs / 32;
                self.lay.clu_off(ch[(i as u64 / per) as usize]) + (i as u64 % per) * 32
            };
            self.img.write_at(off, s);
        }
        // a directory may fill its last cluster completely: no END marker then (deleted slots as filler)
        if noend {
            for i in slots.len() as u64..cap {
                let mut s = [0x2Eu8; 32];
                s[0] = 0xE5;
                s[11] = 0x20;
                let off = if fixed_root {
                    self.lay.root_off() + i * 32
                } else {
                    let ch = own.unwrap().0;
                    let per = cs / 32;
                    self.lay.clu_off(ch[(i / per) as usize]) + (i % per) * 32
                };
                self.img.write_at(off, &s);
            }
        }
        for (kids, p, chain, kid_noend) in pending {
            // ".." of a directory whose parent is the root is 0 (also on FAT32)
            let up = if path.is_empty() { 0 } else { own.map_or(0, |(ch, _)| ch[0]) };
            self.dir(&kids, &p, Some((&chain, up)), false, kid_noend)?;
        }
        Ok(())
    }
}

pub fn build(vol: &Value) -> Result<Image, String> {
    let ft = u(vol, "ft", 12) as u32;
    let bps = u(vol, "bps", 512);
    let spc = u(vol, "spc", 1);
    let nfats = u(vol, "nfats", 2);
    let rsvd = u(vol, "rsvd", if ft == 32 { 32 } else { 1 });
    let rootn = if ft == 32 { 0 } else { u(vol, "rootn", 32) };
    let n = u(vol, "n", 40);
    let bits = u64::from(ft);
    let extra_fat = u(vol, "extra_fat_sectors", 0);
    let spf = ((n + 2) * bits + 7) / 8;
    let spf = (spf + bps - 1) / bps + extra_fat;
    let rootsecs = (rootn * 32 + bps - 1) / bps;
    let first_data = rsvd + nfats * spf + rootsecs;
    let slack = u(vol, "slack_sectors", 0);
    let total = first_data + n * spc + slack;
    if slack >= spc {
        return Err("slack_sectors must be smaller than a cluster (it would add clusters)".into());
    }
    if total > 0xFFFF_FFFF {
        return Err("volume too large".into());
    }
    let expect_ft = if n < 4085 { 12 } else if n < 65525 { 16 } else { 32 };
    if expect_ft != ft {
        return Err(format!("{} clusters make FAT{}, not FAT{}", n, expect_ft, ft));
    }
    let lay = Lay { ft, bps, spc, rsvd, nfats, rootn, n, spf, rootsecs, first_data, total };
    let tail = u(vol, "tail", 0);
    let mut img = Image::new(total * bps + tail);
    if tail > 0 {
        img.fill(total * bps, tail.min(1 << 16), 0xA5);
    }
    // ---- boot sector
    let mut b = vec![0u8; 512];
    b[0] = 0xEB;
    b[1] = 0x3C;
    b[2] = 0x90;
    b[3..11].copy_from_slice(b"FOREIGN ");
    b[11..13].copy_from_slice(&(bps as u16).to_le_bytes());
    b[13] = spc as u8;
    b[14..16].copy_from_slice(&(rsvd as u16).to_le_bytes());
    b[16] = nfats as u8;
    b[17..19].copy_from_slice(&(rootn as u16).to_le_bytes());
    let use16 = vol.get("use_ts16").and_then(Value::as_bool).unwrap_or(total < 0x10000) && total < 0x10000 && ft != 32;
    if use16 {
        b[19..21].copy_from_slice(&(total as u16).to_le_bytes());
    } else {
        b[32..36].copy_from_slice(&(total as u32).to_le_bytes());
    }
    let media = u(vol, "media", 0xF8) as u8;
    b[21] = media;
    b[24..26].copy_from_slice(&63u16.to_le_bytes());
    b[26..28].copy_from_slice(&255u16.to_le_bytes());
    b[28..32].copy_from_slice(&(u(vol, "hidden", 0) as u32).to_le_bytes());
    let status = u(vol, "status", 0) as u8;
    let mirror = vol.get("mirror").and_then(Value::as_bool).unwrap_or(true);
    let active = u(vol, "active", 0);
    let rootc = u(vol, "rootc", 2);
    let fis = u(vol, "fis", 1);
    let bks = u(vol, "bks", 6);
    if ft == 32 {
        b[36..40].copy_from_slice(&(spf as u32).to_le_bytes());
        // with mirroring enabled the active-FAT nibble is meaningless (and may hold a stale value)
        let extf: u16 = if mirror { u(vol, "stale_active", 0) as u16 & 0x0F } else { 0x80 | (active as u16 & 0x0F) };
        b[40..42].copy_from_slice(&extf.to_le_bytes());
        b[44..48].copy_from_slice(&(rootc as u32).to_le_bytes());
        b[48..50].copy_from_slice(&(fis as u16).to_le_bytes());
        b[50..52].copy_from_slice(&(bks as u16).to_le_bytes());
        b[64] = 0x80;
        b[65] = status;
        b[66] = 0x29;
        b[67..71].copy_from_slice(&0xCAFE_F00Du32.to_le_bytes());
        b[71..82].copy_from_slice(b"FOREIGNVOL ");
        b[82..90].copy_from_slice(b"FAT32   ");
    } else {
        b[22..24].copy_from_slice(&(spf as u16).to_le_bytes());
        b[36] = 0x80;
        b[37] = status;
        b[38] = 0x29;
        b[39..43].copy_from_slice(&0xCAFE_F00Du32.to_le_bytes());
        b[43..54].copy_from_slice(b"FOREIGNVOL ");
        b[54..62].copy_from_slice(if ft == 12 { b"FAT12   " } else { b"FAT16   " });
    }
    // boot code area: non-zero filler (must never be touched)
    for k in 90..510 {
        b[k] = (k % 251) as u8 | 1;
    }
    b[510] = 0x55;
    b[511] = 0xAA;
    img.write_at(0, &b);
    // other reserved sectors: a recognisable filler so that stray writes are seen
    for s in 1..rsvd {
        if ft == 32 && (s == fis || s == bks) {
            continue;
        }
        let filler = vec![(0x30 + (s % 64)) as u8; bps as usize];
        img.write_at(s * bps, &filler);
    }
    if ft == 32 && bks != 0 && bks < rsvd {
        img.write_at(bks * bps, &b);
    }
    // ---- tree
    let taken: HashSet<u64> = {
        let mut t = HashSet::new();
        if let Some(bad) = vol.get("bad").and_then(Value::as_array) {
            for r in bad {
                for c in r[0].as_u64().unwrap_or(0)..=r[1].as_u64().unwrap_or(0) {
                    t.insert(c);
                }
            }
        }
        t
    };
    let eocs: Vec<u32> = vol
        .get("eoc")
        .and_then(Value::as_array)
        .map(|a| a.iter().filter_map(Value::as_u64).map(|x| x as u32).collect())
        .filter(|v: &Vec<u32>| !v.is_empty())
        .unwrap_or_else(|| vec![lay.eoc_max()]);
    let tree: Vec<Value> = vol.get("tree").and_then(Value::as_array).cloned().unwrap_or_default();
    let mut ctx = Ctx {
        lay: &lay,
        img,
        fat: Fat { ent: HashMap::new() },
        alloc: Alloc::new(n, vol.get("alloc").and_then(Value::as_str).unwrap_or("asc"), &taken, u(vol, "seed", 1)),
        eocs,
        eoc_i: 0,
        hi_mode: vol.get("hi").and_then(Value::as_str).unwrap_or("none").to_string(),
        truth: Vec::new(),
        cell: u(vol, "cell", 1) as usize,
        oem: vol.get("oem").and_then(Value::as_str).unwrap_or("lossy").to_string(),
    };
    if ft == 32 {
        // the root directory is a chain starting at rootc
        let mut need = 1u64;
        for k in &tree {
            need += 1 + k.get("name").and_then(Value::as_str).map_or(0, |s| (s.encode_utf16().count() as u64 + 12) / 13);
            need += k.get("pre").and_then(Value::as_array).map_or(0, |a| a.len() as u64 * 4);
        }
        let k = ((need + 1) * 32 + lay.cs() - 1) / lay.cs() + u(vol, "root_extra_clusters", 0);
        let mut chain = ctx.alloc.take(1, Some(&vec![json!(rootc)]))?;
        if k > 1 {
            chain.extend(ctx.alloc.take(k as usize - 1, None)?);
        }
        ctx.link(&chain);
        ctx.dir(&tree, &[], Some((&chain, 0)), false, vol.get("root_noend").and_then(Value::as_bool).unwrap_or(false))?;
    } else {
        ctx.dir(&tree, &[], None, true, vol.get("root_noend").and_then(Value::as_bool).unwrap_or(false))?;
    }
    // ---- tables
    let eoc1 = u(vol, "e1", u64::from(lay.eoc_max())) as u32;
    let mut img = ctx.img;
    let pad_zero = vol.get("pad").and_then(Value::as_str) == Some("zero");
    let free_hi = u(vol, "free_hi", 0) as u32; // high nibble stored in free FAT32 entries
    let entries_per_fat = spf * bps * 8 / bits;
    for k in 0..nfats {
        let real = mirror || k == active;
        let base = lay.fat_off(k);
        let set = |img: &mut Image, c: u64, v: u32, hi: u32| match ft {
            12 => {
                let o = base + c + c / 2;
                let w = img.u16_at(o);
                let nw = if c & 1 == 0 { (w & 0xF000) | (v as u16 & 0xFFF) } else { (w & 0x000F) | ((v as u16) << 4) };
                img.write_at(o, &nw.to_le_bytes());
            }
            16 => img.write_at(base + c * 2, &(v as u16).to_le_bytes()),
            _ => img.write_at(base + c * 4, &((v & 0x0FFF_FFFF) | (hi << 28)).to_le_bytes()),
        };
        set(&mut img, 0, (lay.eoc_max() & !0xFF) | u32::from(media), 0xF);
        set(&mut img, 1, eoc1, 0xF);
        if real {
            for (c, (v, hi)) in ctx.fat.ent.iter() {
                set(&mut img, *c, *v, *hi);
            }
            for c in taken.iter() {
                set(&mut img, *c, lay.bad(), 0);
            }
            if free_hi != 0 && ft == 32 && n < 100_000 {
                for c in 2..n + 2 {
                    if !ctx.fat.ent.contains_key(&c) && !taken.contains(&c) {
                        set(&mut img, c, 0, free_hi);
                    }
                }
            }
        } else {
            // an inactive copy: stale content that must be neither read nor written
            for c in 2..(n + 2).min(64) {
                set(&mut img, c, lay.eoc_max(), 0x5);
            }
        }
        if !pad_zero {
            for c in n + 2..entries_per_fat.min(n + 2 + 4096) {
                set(&mut img, c, lay.eoc_max(), 0);
            }
        }
    }
    // ---- FSInfo
    if ft == 32 && fis != 0 && fis < rsvd {
        let used = ctx.fat.ent.len() as u64 + taken.len() as u64;
        let free_exact = n - used;
        let fi = vol.get("fsinfo").cloned().unwrap_or(json!({}));
        let free = match fi.get("free") {
            Some(Value::String(s)) if s == "unknown" => 0xFFFF_FFFFu64,
            Some(Value::Number(x)) => x.as_u64().unwrap_or(0),
            Some(Value::String(s)) if s == "low" => free_exact.saturating_sub(3),
            Some(Value::String(s)) if s == "high" => (free_exact + 3).min(n),
            _ => free_exact,
        };
        let next = match fi.get("next") {
            Some(Value::String(s)) if s == "unknown" => 0xFFFF_FFFFu64,
            Some(Value::Number(x)) => x.as_u64().unwrap_or(2),
            _ => 2,
        };
        let mut s = vec![0u8; bps as usize];
        s[0..4].copy_from_slice(&0x4161_5252u32.to_le_bytes());
        s[484..488].copy_from_slice(&0x6141_7272u32.to_le_bytes());
        s[488..492].copy_from_slice(&(free as u32).to_le_bytes());
        s[492..496].copy_from_slice(&(next as u32).to_le_bytes());
        s[508..512].copy_from_slice(&0xAA55_0000u32.to_le_bytes());
        img.write_at(fis * bps, &s);
    }
    let key = vol.to_string();
    TRUTH.with(|t| t.borrow_mut().insert(key, Value::Array(ctx.truth)));
    Ok(img)
}
