//! Independent image builder (foreign volumes).  Filled in later.
use serde_json::Value;

use crate::dev::Image;

pub fn build(_vol: &Value) -> Result<Image, String> {
    Err("builder not implemented".into())
}
