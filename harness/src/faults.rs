//! Exhaustive single-fault enumeration for C09.
//!
//! The fault-free run tells how many device calls C each operation issues; then for every
//! operation j (all of them, or those listed in `fault_ops`) and every k in 1..=C the program is
//! executed again from the same initial image with the k-th device call of operation j failing.
//! One compact event per faulted run is emitted: which call failed (kind, issued from a
//! destructor or not) and what the public call returned.
use serde_json::{json, Map, Value};

use crate::exec::run_program;

fn events_of(prog: &Value) -> Vec<Value> {
    let mut buf: Vec<u8> = Vec::new();
    run_program(prog, &mut buf);
    buf.split(|b| *b == b'\n').filter(|l| !l.is_empty()).filter_map(|l| serde_json::from_slice(l).ok()).collect()
}

pub fn enumerate(prog: &Value, w: &mut dyn std::io::Write) -> u64 {
    let mut base = prog.clone();
    // no observations: only results and device-call counts are needed
    base["cfg"]["obs"] = json!({"raw": false, "rv": false, "sv": false});
    let pid = prog.get("id").map(|v| v.as_str().map(str::to_string).unwrap_or(v.to_string())).unwrap_or_default();
    let clean = events_of(&base);
    let mut n = 0u64;
    let emit = |m: Map<String, Value>, w: &mut dyn std::io::Write| {
        let s = serde_json::to_string(&Value::Object(m)).unwrap();
        w.write_all(s.as_bytes()).unwrap();
        w.write_all(b"\n").unwrap();
    };
    {
        let mut m = Map::new();
        m.insert("op".into(), json!("begin"));
        m.insert("pid".into(), json!(pid));
        m.insert("i".into(), json!(0));
        m.insert("cfg".into(), base["cfg"].clone());
        emit(m, w);
        n += 1;
    }
    // map events of the clean run to op indexes: events are begin, mount, op..., (close_all), unmount|dropfs, mount, ...
    // the executor numbers program ops by position; unmount-like ops consume one op position too
    let ops: Vec<Value> = prog.get("ops").and_then(Value::as_array).cloned().unwrap_or_default();
    let only: Option<Vec<String>> = prog.get("fault_ops").and_then(Value::as_array).map(|a| a.iter().filter_map(|x| x.as_str().map(str::to_string)).collect());
    let mut pc: i64 = 0; // index of the next program op
    let mut targets: Vec<(i64, String, u64)> = Vec::new(); // (fault `at`, op name, calls)
    for ev in clean.iter() {
        let name = ev["op"].as_str().unwrap_or("");
        let calls = ev["calls"].as_u64().unwrap_or(0);
        match name {
            "begin" | "end" | "close_all" | "poke" | "abandon" | "abandon_after_panic" => {
                if name == "abandon" {
                    pc += 1;
                }
            }
            "mount" => targets.push((-1 - pc, name.to_string(), calls)),
            "unmount" | "dropfs" => {
                // an explicit op (consumes a position) or the implicit drop at the end of the program
                if (pc as usize) < ops.len() {
                    targets.push((pc, name.to_string(), calls));
                    pc += 1;
                }
            }
            _ => {
                targets.push((pc, name.to_string(), calls));
                pc += 1;
            }
        }
    }
    // optional split of the work: [j, m] = handle only the targets whose position is j modulo m
    let part: Option<(u64, u64)> = prog.get("fault_part").and_then(Value::as_array).map(|a| (a[0].as_u64().unwrap_or(0), a[1].as_u64().unwrap_or(1).max(1)));
    for (ti, (at, name, calls)) in targets.into_iter().enumerate() {
        if let Some((j, m)) = part {
            if ti as u64 % m != j {
                continue;
            }
        }
        if let Some(o) = &only {
            if !o.iter().any(|x| x == &name) {
                continue;
            }
        }
        for k in 1..=calls {
            let mut p = base.clone();
            p["fault"] = json!({"at": at, "k": k});
            let evs = events_of(&p);
            // the faulted event is the one carrying "flt"
            let hit = evs.iter().find(|e| e.get("flt").is_some());
            let mut m = Map::new();
            m.insert("op".into(), json!("fault"));
            m.insert("pid".into(), json!(pid));
            m.insert("i".into(), json!(n));
            m.insert("t".into(), json!(at));
            m.insert("name".into(), json!(name));
            m.insert("k".into(), json!(k));
            m.insert("of".into(), json!(calls));
            match hit {
                Some(e) => {
                    m.insert("hit".into(), json!(true));
                    m.insert("flt".into(), e["flt"].clone());
                    m.insert("r".into(), e["r"].clone());
                    m.insert("evop".into(), e["op"].clone());
                }
                None => {
                    m.insert("hit".into(), json!(false));
                    m.insert("r".into(), json!({"k":"none"}));
                }
            }
            // a panic or hang anywhere in the faulted run is reported even if it is not in the faulted event
            let bad = evs.iter().find(|e| matches!(e["r"]["k"].as_str(), Some("panic") | Some("hang")));
            if let Some(b) = bad {
                m.insert("bad".into(), json!({"op": b["op"], "r": b["r"]}));
            }
            emit(m, w);
            n += 1;
        }
    }
    n
}
