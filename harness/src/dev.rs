//! SimDevice: sparse in-memory block device with call logging, fault injection, short I/O,
//! write log (for crash images) and a device-call budget.
//!
//! The device is shared between the library (which owns one `SimDevice` handle inside
//! `FileSystem`) and the harness (which keeps another handle to observe the bytes).
use std::cell::RefCell;
use std::collections::HashMap;
use std::rc::Rc;

use fatfs::{IoBase, IoError, Read, Seek, SeekFrom, Write};

pub const BLK: u64 = 4096;

#[derive(Debug, Clone, PartialEq, Eq)]
pub enum DevErrKind {
    Injected,
    Eof,
    WriteZero,
    Budget,
    BadSeek,
    /// a transient "interrupted" error (EINTR-like): the caller may retry; never implies the operation happened
    Interrupted,
}

#[derive(Debug, Clone)]
pub struct DevError {
    pub kind: DevErrKind,
    pub id: u64,
}

impl IoError for DevError {
    fn is_interrupted(&self) -> bool {
        self.kind == DevErrKind::Interrupted
    }
    fn new_unexpected_eof_error() -> Self {
        DevError { kind: DevErrKind::Eof, id: 0 }
    }
    fn new_write_zero_error() -> Self {
        DevError { kind: DevErrKind::WriteZero, id: 0 }
    }
}

#[derive(Debug, Clone, Copy, PartialEq, Eq)]
pub enum CallKind {
    Read,
    Write,
    Seek,
    Flush,
}

impl CallKind {
    pub fn name(self) -> &'static str {
        match self {
            CallKind::Read => "read",
            CallKind::Write => "write",
            CallKind::Seek => "seek",
            CallKind::Flush => "flush",
        }
    }
}

#[derive(Debug, Clone)]
pub struct DevCall {
    pub kind: CallKind,
    pub off: u64,
    pub len: u64,
    pub in_drop: bool,
}

#[derive(Debug, Clone)]
pub enum WlogRec {
    Write { off: u64, data: Vec<u8> },
    Flush,
}

#[derive(Clone, Default)]
pub struct Image {
    pub blocks: HashMap<u64, Rc<[u8; BLK as usize]>>,
    pub size: u64,
}

impl Image {
    pub fn new(size: u64) -> Self {
        Image { blocks: HashMap::new(), size }
    }
    pub fn read_at(&self, off: u64, buf: &mut [u8]) {
        let mut done = 0usize;
        while done < buf.len() {
            let o = off + done as u64;
            let b = o / BLK;
            let bo = (o % BLK) as usize;
            let n = (BLK as usize - bo).min(buf.len() - done);
            match self.blocks.get(&b) {
                Some(blk) => buf[done..done + n].copy_from_slice(&blk[bo..bo + n]),
                None => buf[done..done + n].fill(0),
            }
            done += n;
        }
    }
    pub fn write_at(&mut self, off: u64, data: &[u8]) {
        let mut done = 0usize;
        while done < data.len() {
            let o = off + done as u64;
            let b = o / BLK;
            let bo = (o % BLK) as usize;
            let n = (BLK as usize - bo).min(data.len() - done);
            let src = &data[done..done + n];
            if !self.blocks.contains_key(&b) {
                if src.iter().all(|x| *x == 0) {
                    done += n;
                    continue;
                }
                self.blocks.insert(b, Rc::new([0u8; BLK as usize]));
            }
            let blk = Rc::make_mut(self.blocks.get_mut(&b).unwrap());
            blk[bo..bo + n].copy_from_slice(src);
            done += n;
        }
    }
    pub fn fill(&mut self, off: u64, len: u64, byte: u8) {
        let chunk = vec![byte; 4096];
        let mut done = 0u64;
        while done < len {
            let n = (len - done).min(4096) as usize;
            self.write_at(off + done, &chunk[..n]);
            done += n as u64;
        }
    }
    pub fn u8_at(&self, off: u64) -> u8 {
        let mut b = [0u8; 1];
        self.read_at(off, &mut b);
        b[0]
    }
    pub fn u16_at(&self, off: u64) -> u16 {
        let mut b = [0u8; 2];
        self.read_at(off, &mut b);
        u16::from_le_bytes(b)
    }
    pub fn u32_at(&self, off: u64) -> u32 {
        let mut b = [0u8; 4];
        self.read_at(off, &mut b);
        u32::from_le_bytes(b)
    }
    pub fn vec_at(&self, off: u64, len: usize) -> Vec<u8> {
        let mut v = vec![0u8; len];
        self.read_at(off, &mut v);
        v
    }
    /// 64-bit FNV-1a digest over all non-zero blocks in block order.
    pub fn digest(&self) -> u64 {
        let mut keys: Vec<&u64> = self.blocks.keys().collect();
        keys.sort();
        let mut h: u64 = 0xcbf29ce484222325;
        for k in keys {
            let blk = &self.blocks[k];
            if blk.iter().all(|x| *x == 0) {
                continue;
            }
            for b in k.to_le_bytes() {
                h ^= u64::from(b);
                h = h.wrapping_mul(0x100000001b3);
            }
            for b in blk.iter() {
                h ^= u64::from(*b);
                h = h.wrapping_mul(0x100000001b3);
            }
        }
        h
    }
}

pub struct DevInner {
    pub img: Image,
    pub pos: u64,
    /// when true, calls are neither logged, counted nor faulted (harness observation)
    pub observe: bool,
    pub log: Vec<DevCall>,
    pub record_wlog: bool,
    pub wlog: Vec<WlogRec>,
    pub calls: u64,
    pub fault_at: Option<u64>,
    /// fail the next device flush of this operation (instead of the k-th call)
    /// every device call from the fault_at-th on fails (the medium went away), not only that one
    pub fault_sticky: bool,
    pub fault_flush: bool,
    /// the injected failure is a transient "interrupted" error
    pub fault_intr: bool,
    pub fault_hit: Option<DevCall>,
    /// the fault that was hit was a transient "interrupted" error
    pub fault_hit_intr: bool,
    pub next_err_id: u64,
    pub budget: u64,
    pub budget_tripped: bool,
    /// short I/O: Some(state) => transfers are cut to 1..=n bytes pseudo-randomly
    pub short: Option<u64>,
    /// accesses at or beyond this offset are flagged (declared end of the volume)
    pub vol_end: u64,
    pub beyond: Vec<DevCall>,
}

#[derive(Clone)]
pub struct SimDevice(pub Rc<RefCell<DevInner>>);

fn in_drop() -> bool {
    #[cfg(fatfs_verif)]
    {
        fatfs::verif_in_drop()
    }
    #[cfg(not(fatfs_verif))]
    {
        false
    }
}

impl SimDevice {
    pub fn new(img: Image) -> Self {
        let vol_end = img.size;
        SimDevice(Rc::new(RefCell::new(DevInner {
            img,
            pos: 0,
            observe: false,
            log: Vec::new(),
            record_wlog: false,
            wlog: Vec::new(),
            calls: 0,
            fault_at: None,
            fault_sticky: false,
            fault_flush: false,
            fault_intr: false,
            fault_hit: None,
            fault_hit_intr: false,
            next_err_id: 1,
            budget: u64::MAX,
            budget_tripped: false,
            short: None,
            vol_end,
            beyond: Vec::new(),
        })))
    }
    pub fn image(&self) -> Image {
        self.0.borrow().img.clone()
    }
    pub fn begin_op(&self) {
        let mut d = self.0.borrow_mut();
        d.log.clear();
        d.calls = 0;
        d.fault_hit = None;
        d.fault_hit_intr = false;
        d.beyond.clear();
    }
}

impl DevInner {
    /// common prologue of every device call; returns Err if the call must fail
    fn enter(&mut self, kind: CallKind, off: u64, len: u64) -> Result<(), DevError> {
        if self.observe {
            return Ok(());
        }
        let call = DevCall { kind, off, len, in_drop: in_drop() };
        self.calls += 1;
        if self.calls > self.budget {
            if !self.budget_tripped {
                self.budget_tripped = true;
            }
            // make the library unwind through its error paths: every further call fails
            return Err(DevError { kind: DevErrKind::Budget, id: 0 });
        }
        if kind != CallKind::Seek && kind != CallKind::Flush && len > 0 && off.saturating_add(len) > self.vol_end {
            self.beyond.push(call.clone());
        }
        if self.fault_flush && kind == CallKind::Flush && self.fault_hit.is_none() {
            let id = self.next_err_id;
            self.next_err_id += 1;
            self.fault_hit = Some(call.clone());
            self.fault_hit_intr = self.fault_intr;
            self.log.push(call);
            return Err(DevError { kind: if self.fault_intr { DevErrKind::Interrupted } else { DevErrKind::Injected }, id });
        }
        if let Some(k) = self.fault_at {
            if self.calls == k || (self.fault_sticky && self.calls > k) {
                let id = self.next_err_id;
                self.next_err_id += 1;
                if self.fault_hit.is_none() {
                    self.fault_hit = Some(call.clone());
                }
                if self.fault_intr && !self.fault_flush {
                    self.fault_hit_intr = true;
                    // a transient "interrupted" error (EINTR-like) on this one call: callers that loop (write_all, read_exact) repeat it
                    self.log.push(call);
                    return Err(DevError { kind: DevErrKind::Interrupted, id });
                }
                self.log.push(call);
                return Err(DevError { kind: DevErrKind::Injected, id });
            }
        }
        self.log.push(call);
        Ok(())
    }
    fn short_len(&mut self, n: usize) -> usize {
        match self.short {
            Some(ref mut s) if n > 1 => {
                // xorshift
                *s ^= *s << 13;
                *s ^= *s >> 7;
                *s ^= *s << 17;
                // bias: half of the time a full transfer, otherwise 1..n
                if *s & 1 == 0 {
                    n
                } else {
                    1 + ((*s >> 1) % (n as u64)) as usize
                }
            }
            _ => n,
        }
    }
}

impl SimDevice {
    pub fn raw_read(&mut self, buf: &mut [u8]) -> Result<usize, DevError> {
        let mut d = self.0.borrow_mut();
        let pos = d.pos;
        d.enter(CallKind::Read, pos, buf.len() as u64)?;
        let avail = d.img.size.saturating_sub(pos);
        let mut n = (buf.len() as u64).min(avail) as usize;
        n = d.short_len(n);
        d.img.read_at(pos, &mut buf[..n]);
        d.pos += n as u64;
        Ok(n)
    }
    pub fn raw_write(&mut self, buf: &[u8]) -> Result<usize, DevError> {
        let mut d = self.0.borrow_mut();
        let pos = d.pos;
        d.enter(CallKind::Write, pos, buf.len() as u64)?;
        let avail = d.img.size.saturating_sub(pos);
        let mut n = (buf.len() as u64).min(avail) as usize;
        n = d.short_len(n);
        d.img.write_at(pos, &buf[..n]);
        if d.record_wlog && !d.observe && n > 0 {
            d.wlog.push(WlogRec::Write { off: pos, data: buf[..n].to_vec() });
        }
        d.pos += n as u64;
        Ok(n)
    }
    pub fn raw_flush(&mut self) -> Result<(), DevError> {
        let mut d = self.0.borrow_mut();
        let pos = d.pos;
        d.enter(CallKind::Flush, pos, 0)?;
        if d.record_wlog && !d.observe {
            d.wlog.push(WlogRec::Flush);
        }
        Ok(())
    }
    pub fn raw_seek(&mut self, pos: SeekFrom) -> Result<u64, DevError> {
        let mut d = self.0.borrow_mut();
        let cur = d.pos;
        let target: Option<u64> = match pos {
            SeekFrom::Start(x) => Some(x),
            SeekFrom::Current(x) => (cur as i128 + x as i128).try_into().ok(),
            SeekFrom::End(x) => (d.img.size as i128 + x as i128).try_into().ok(),
        };
        d.enter(CallKind::Seek, target.unwrap_or(u64::MAX), 0)?;
        match target {
            Some(t) => {
                d.pos = t;
                Ok(t)
            }
            None => Err(DevError { kind: DevErrKind::BadSeek, id: 0 }),
        }
    }
}

impl IoBase for SimDevice {
    type Error = DevError;
}

// ---- the library sees the device through its own I/O traits ...
#[cfg(not(feature = "stdio"))]
impl Read for SimDevice {
    fn read(&mut self, buf: &mut [u8]) -> Result<usize, DevError> {
        self.raw_read(buf)
    }
}
#[cfg(not(feature = "stdio"))]
impl Write for SimDevice {
    fn write(&mut self, buf: &[u8]) -> Result<usize, DevError> {
        self.raw_write(buf)
    }
    fn flush(&mut self) -> Result<(), DevError> {
        self.raw_flush()
    }
}
#[cfg(not(feature = "stdio"))]
impl Seek for SimDevice {
    fn seek(&mut self, pos: SeekFrom) -> Result<u64, DevError> {
        self.raw_seek(pos)
    }
}

// ---- ... or, with feature `stdio`, as a std::io object behind the library's StdIoWrapper (what most users do): every call, including
// read_exact / write_all / flush / seek, goes library -> SimDevice -> fatfs::StdIoWrapper -> StdSim (std::io traits) -> raw_*
#[cfg(feature = "stdio")]
pub struct StdSim(pub SimDevice);

#[cfg(feature = "stdio")]
impl std::fmt::Display for DevError {
    fn fmt(&self, f: &mut std::fmt::Formatter<'_>) -> std::fmt::Result {
        write!(f, "{:?}", self)
    }
}
#[cfg(feature = "stdio")]
impl std::error::Error for DevError {}

#[cfg(feature = "stdio")]
fn to_std(e: DevError) -> std::io::Error {
    let kind = match e.kind {
        DevErrKind::Interrupted => std::io::ErrorKind::Interrupted,
        _ => std::io::ErrorKind::Other,
    };
    std::io::Error::new(kind, e)
}

#[cfg(feature = "stdio")]
fn from_std(e: std::io::Error) -> DevError {
    if let Some(d) = e.get_ref().and_then(|x| x.downcast_ref::<DevError>()) {
        return d.clone();
    }
    match e.kind() {
        std::io::ErrorKind::UnexpectedEof => DevError { kind: DevErrKind::Eof, id: 0 },
        std::io::ErrorKind::WriteZero => DevError { kind: DevErrKind::WriteZero, id: 0 },
        std::io::ErrorKind::Interrupted => DevError { kind: DevErrKind::Interrupted, id: 0 },
        _ => DevError { kind: DevErrKind::BadSeek, id: 0 },
    }
}

#[cfg(feature = "stdio")]
impl std::io::Read for StdSim {
    fn read(&mut self, buf: &mut [u8]) -> std::io::Result<usize> {
        self.0.raw_read(buf).map_err(to_std)
    }
}
#[cfg(feature = "stdio")]
impl std::io::Write for StdSim {
    fn write(&mut self, buf: &[u8]) -> std::io::Result<usize> {
        self.0.raw_write(buf).map_err(to_std)
    }
    fn flush(&mut self) -> std::io::Result<()> {
        self.0.raw_flush().map_err(to_std)
    }
}
#[cfg(feature = "stdio")]
impl std::io::Seek for StdSim {
    fn seek(&mut self, pos: std::io::SeekFrom) -> std::io::Result<u64> {
        let p = match pos {
            std::io::SeekFrom::Start(x) => SeekFrom::Start(x),
            std::io::SeekFrom::End(x) => SeekFrom::End(x),
            std::io::SeekFrom::Current(x) => SeekFrom::Current(x),
        };
        self.0.raw_seek(p).map_err(to_std)
    }
}

#[cfg(feature = "stdio")]
impl SimDevice {
    fn wrapped(&self) -> fatfs::StdIoWrapper<StdSim> {
        fatfs::StdIoWrapper::new(StdSim(self.clone()))
    }
}
#[cfg(feature = "stdio")]
impl Read for SimDevice {
    fn read(&mut self, buf: &mut [u8]) -> Result<usize, DevError> {
        self.wrapped().read(buf).map_err(from_std)
    }
    fn read_exact(&mut self, buf: &mut [u8]) -> Result<(), DevError> {
        self.wrapped().read_exact(buf).map_err(from_std)
    }
}
#[cfg(feature = "stdio")]
impl Write for SimDevice {
    fn write(&mut self, buf: &[u8]) -> Result<usize, DevError> {
        self.wrapped().write(buf).map_err(from_std)
    }
    fn write_all(&mut self, buf: &[u8]) -> Result<(), DevError> {
        self.wrapped().write_all(buf).map_err(from_std)
    }
    fn flush(&mut self) -> Result<(), DevError> {
        self.wrapped().flush().map_err(from_std)
    }
}
#[cfg(feature = "stdio")]
impl Seek for SimDevice {
    fn seek(&mut self, pos: SeekFrom) -> Result<u64, DevError> {
        self.wrapped().seek(pos).map_err(from_std)
    }
}
