//! Independent FAT decoder = the projection function from raw image bytes to the `raw` record
//! of the trace events.  Written from the Microsoft FAT specification; shares no code with fatfs.
//! It splits bytes into fields and follows chains to *read* directories and files.  It does not
//! assemble long names, verify checksums, decide ownership or judge anything: that is TLA+.
use std::collections::HashSet;

use serde_json::{json, Value};

use crate::dev::{Image, BLK};

#[derive(Debug, Clone)]
pub struct Geo {
    pub bps: u64,
    pub spc: u64,
    pub rsvd: u64,
    pub nfats: u64,
    pub root_entries: u64,
    pub total_sectors: u64,
    pub spf: u64,
    pub layout32: bool,
    pub ft: u32,
    pub n: u64,
    pub root_dir_sectors: u64,
    pub first_data_sector: u64,
    pub root_cluster: u64,
    pub ext_flags: u16,
    pub fsinfo_sector: u64,
    pub backup_sector: u64,
    pub media: u8,
}

impl Geo {
    pub fn parse(img: &Image) -> Option<Geo> {
        let bps = u64::from(img.u16_at(11));
        let spc = u64::from(img.u8_at(13));
        let rsvd = u64::from(img.u16_at(14));
        let nfats = u64::from(img.u8_at(16));
        let root_entries = u64::from(img.u16_at(17));
        let ts16 = u64::from(img.u16_at(19));
        let media = img.u8_at(21);
        let spf16 = u64::from(img.u16_at(22));
        let ts32 = u64::from(img.u32_at(32));
        let layout32 = spf16 == 0;
        let spf = if layout32 { u64::from(img.u32_at(36)) } else { spf16 };
        let total_sectors = if ts16 != 0 { ts16 } else { ts32 };
        if bps == 0 || spc == 0 {
            return None;
        }
        let root_dir_sectors = (root_entries * 32 + bps - 1) / bps;
        let first_data_sector = rsvd + nfats * spf + root_dir_sectors;
        if total_sectors < first_data_sector {
            return None;
        }
        let n = (total_sectors - first_data_sector) / spc;
        let ft = if n < 4085 {
            12
        } else if n < 65525 {
            16
        } else {
            32
        };
        let (ext_flags, root_cluster, fsinfo_sector, backup_sector) = if layout32 {
            (img.u16_at(40), u64::from(img.u32_at(44)), u64::from(img.u16_at(48)), u64::from(img.u16_at(50)))
        } else {
            (0, 0, 0, 0)
        };
        Some(Geo {
            bps,
            spc,
            rsvd,
            nfats,
            root_entries,
            total_sectors,
            spf,
            layout32,
            ft,
            n,
            root_dir_sectors,
            first_data_sector,
            root_cluster,
            ext_flags,
            fsinfo_sector,
            backup_sector,
            media,
        })
    }
    pub fn cs(&self) -> u64 {
        self.bps * self.spc
    }
    pub fn vol_bytes(&self) -> u64 {
        self.total_sectors * self.bps
    }
    pub fn status_off(&self) -> u64 {
        if self.layout32 {
            0x41
        } else {
            0x25
        }
    }
    pub fn mirroring(&self) -> bool {
        !self.layout32 || self.ext_flags & 0x80 == 0
    }
    pub fn active_fat(&self) -> u64 {
        if self.mirroring() {
            0
        } else {
            u64::from(self.ext_flags & 0x0F)
        }
    }
    pub fn fat_off(&self, copy: u64) -> u64 {
        (self.rsvd + copy * self.spf) * self.bps
    }
    pub fn fat_entries(&self) -> u64 {
        self.spf * self.bps * 8 / u64::from(self.ft)
    }
    pub fn root_off(&self) -> u64 {
        (self.rsvd + self.nfats * self.spf) * self.bps
    }
    pub fn clu_off(&self, c: u64) -> u64 {
        (self.first_data_sector + (c - 2) * self.spc) * self.bps
    }
    pub fn data_end(&self) -> u64 {
        (self.first_data_sector + self.n * self.spc) * self.bps
    }
    pub fn valid_cluster(&self, c: u64) -> bool {
        c >= 2 && c < self.n + 2
    }
    pub fn bad_mark(&self) -> u32 {
        match self.ft {
            12 => 0xFF7,
            16 => 0xFFF7,
            _ => 0x0FFF_FFF7,
        }
    }
    pub fn eoc_min(&self) -> u32 {
        match self.ft {
            12 => 0xFF8,
            16 => 0xFFF8,
            _ => 0x0FFF_FFF8,
        }
    }
    /// (value with FAT32 high nibble removed, high nibble)
    pub fn fat_get(&self, img: &Image, copy: u64, c: u64) -> (u32, u32) {
        let base = self.fat_off(copy);
        match self.ft {
            12 => {
                let w = u32::from(img.u16_at(base + c + c / 2));
                (if c & 1 == 0 { w & 0xFFF } else { w >> 4 }, 0)
            }
            16 => (u32::from(img.u16_at(base + c * 2)), 0),
            _ => {
                let w = img.u32_at(base + c * 4);
                (w & 0x0FFF_FFFF, w >> 28)
            }
        }
    }
    pub fn fat_set(&self, img: &mut Image, copy: u64, c: u64, v: u32, hi: u32) {
        let base = self.fat_off(copy);
        match self.ft {
            12 => {
                let o = base + c + c / 2;
                let w = img.u16_at(o);
                let nw = if c & 1 == 0 { (w & 0xF000) | (v as u16 & 0xFFF) } else { (w & 0x000F) | ((v as u16) << 4) };
                img.write_at(o, &nw.to_le_bytes());
            }
            16 => img.write_at(base + c * 2, &(v as u16).to_le_bytes()),
            _ => img.write_at(base + c * 4, &((v & 0x0FFF_FFFF) | (hi << 28)).to_le_bytes()),
        }
    }
    /// follow a chain for reading; stops at anything that is not a valid in-range link or on a revisit
    pub fn chain(&self, img: &Image, first: u64, max: usize) -> Vec<u64> {
        let copy = self.active_fat();
        let mut out = Vec::new();
        let mut seen = HashSet::new();
        let mut c = first;
        while self.valid_cluster(c) && out.len() < max && seen.insert(c) {
            out.push(c);
            let (v, _) = self.fat_get(img, copy, c);
            c = u64::from(v);
        }
        out
    }
}

fn fnv31(data: &[u8]) -> u32 {
    let mut h: u32 = 0x811c9dc5;
    for b in data {
        h ^= u32::from(*b);
        h = h.wrapping_mul(0x0100_0193);
    }
    h & 0x7FFF_FFFF
}

/// bytes -> cells: unit 1 = the bytes themselves, unit U>1 = one 31-bit digest per U-byte block
pub fn cells(data: &[u8], unit: usize) -> Vec<u32> {
    if unit <= 1 {
        data.iter().map(|b| u32::from(*b)).collect()
    } else {
        data.chunks(unit).map(fnv31).collect()
    }
}

fn clamp_i(v: u64) -> i64 {
    if v == 0xFFFF_FFFF {
        -1
    } else if v > 0x7FFF_FFFF {
        -2
    } else {
        v as i64
    }
}

pub fn slot_json(s: &[u8], ft: u32) -> Value {
    let x = fnv31(s);
    if s[0] == 0xE5 {
        return json!({"t":"D","x":x});
    }
    let at = s[11];
    if at & 0x3F == 0x0F {
        let mut u = Vec::with_capacity(13);
        for k in 0..5 {
            u.push(u16::from_le_bytes([s[1 + 2 * k], s[2 + 2 * k]]));
        }
        for k in 0..6 {
            u.push(u16::from_le_bytes([s[14 + 2 * k], s[15 + 2 * k]]));
        }
        for k in 0..2 {
            u.push(u16::from_le_bytes([s[28 + 2 * k], s[29 + 2 * k]]));
        }
        json!({"t":"L","o":s[0],"at":at,"ty":s[12],"k":s[13],"cl":u16::from_le_bytes([s[26],s[27]]),"u":u,"x":x})
    } else {
        let hi = u32::from(u16::from_le_bytes([s[20], s[21]]));
        let lo = u32::from(u16::from_le_bytes([s[26], s[27]]));
        let cl = if ft == 32 { (hi << 16) | lo } else { lo };
        let sz = u64::from(u32::from_le_bytes([s[28], s[29], s[30], s[31]]));
        json!({"t":"S","n":&s[0..11],"at":at,"nt":s[12],"cl":clamp_i(u64::from(cl)),"hi":hi,"sz":clamp_i(sz),
               "ct":[u16::from_le_bytes([s[16],s[17]]),u16::from_le_bytes([s[14],s[15]]),s[13]],
               "mt":[u16::from_le_bytes([s[24],s[25]]),u16::from_le_bytes([s[22],s[23]])],
               "ad":u16::from_le_bytes([s[18],s[19]]),"x":x})
    }
}

pub struct DecodeOpts {
    pub cell: usize,
    pub max_file_bytes: u64,
    pub with_files: bool,
}

/// FAT copy -> {e0,e0h,e1,e1h,used:[[c,v,h]],bad:[[lo,hi]],padx,padz}
fn fat_json(g: &Geo, img: &Image, copy: u64) -> Value {
    let (e0, e0h) = g.fat_get(img, copy, 0);
    let (e1, e1h) = g.fat_get(img, copy, 1);
    let mut used: Vec<u64> = Vec::new();
    let mut fm = serde_json::Map::new();
    let mut hm = serde_json::Map::new();
    let mut bad: Vec<[u64; 2]> = Vec::new();
    let bad_mark = g.bad_mark();
    let base = g.fat_off(copy);
    let total = g.fat_entries();
    let last = g.n + 2; // exclusive
    // iterate only over blocks that exist in the sparse image
    let fat_bytes = g.spf * g.bps;
    let b0 = base / BLK;
    let b1 = (base + fat_bytes + BLK - 1) / BLK;
    let mut blocks: Vec<u64> = if g.ft == 12 {
        // FAT12 entries straddle block boundaries: scan linearly (at most 4086 entries), one pseudo block
        Vec::new()
    } else if (b1 - b0) as usize > img.blocks.len() * 2 {
        img.blocks.keys().copied().filter(|b| *b >= b0 && *b < b1).collect()
    } else {
        (b0..b1).filter(|b| img.blocks.contains_key(b)).collect()
    };
    blocks.sort();
    let mut padx: u32 = 0x811c9dc5;
    let mut padz: u64 = 0;
    let mut pad_seen: u64 = 0;
    if g.ft == 12 {
        for c in 2..total {
            let (v, h) = g.fat_get(img, copy, c);
            if c < last {
                if v == bad_mark {
                    match bad.last_mut() {
                        Some(r) if r[1] + 1 == c => r[1] = c,
                        _ => bad.push([c, c]),
                    }
                } else if v != 0 {
                    used.push(c);
                    fm.insert(c.to_string(), json!(v));
                    let _ = h;
                }
            } else {
                pad_seen += 1;
                if v == 0 {
                    padz += 1;
                }
                if v != 0 {
                    for byte in (c as u32).to_le_bytes().iter().chain(v.to_le_bytes().iter()) {
                        padx ^= u32::from(*byte);
                        padx = padx.wrapping_mul(0x0100_0193);
                    }
                }
            }
        }
    }
    for b in blocks {
        // entry index range overlapping this block (with one entry of slack on both sides for FAT12)
        let lo_byte = (b * BLK).saturating_sub(base);
        let hi_byte = ((b + 1) * BLK).saturating_sub(base).min(fat_bytes);
        let (mut c_lo, c_hi) = match g.ft {
            12 => ((lo_byte * 2 / 3).saturating_sub(1), (hi_byte * 2 + 2) / 3 + 1),
            16 => (lo_byte / 2, (hi_byte + 1) / 2),
            _ => (lo_byte / 4, (hi_byte + 3) / 4),
        };
        if c_lo < 2 {
            c_lo = 2;
        }
        let c_hi = c_hi.min(total);
        let mut c = c_lo;
        while c < c_hi {
            // entry must start in this block (avoid double counting), except straddling FAT12 entries
            let start = match g.ft {
                12 => c + c / 2,
                16 => c * 2,
                _ => c * 4,
            };
            if start < lo_byte || start >= hi_byte {
                c += 1;
                continue;
            }
            let (v, h) = g.fat_get(img, copy, c);
            if c < last {
                if v == bad_mark {
                    match bad.last_mut() {
                        Some(r) if r[1] + 1 == c => r[1] = c,
                        _ => bad.push([c, c]),
                    }
                } else {
                    if v != 0 {
                        used.push(c);
                        fm.insert(c.to_string(), json!(v));
                    }
                    if h != 0 {
                        hm.insert(c.to_string(), json!(h));
                    }
                }
            } else {
                pad_seen += 1;
                if v == 0 {
                    padz += 1;
                }
                if v != 0 || h != 0 {
                    for byte in (c as u32).to_le_bytes().iter().chain(v.to_le_bytes().iter()).chain(h.to_le_bytes().iter()) {
                        padx ^= u32::from(*byte);
                        padx = padx.wrapping_mul(0x0100_0193);
                    }
                }
            }
            c += 1;
        }
    }
    // padding entries in absent (all-zero) blocks are zero
    let pad_total = total.saturating_sub(last);
    padz += pad_total.saturating_sub(pad_seen);
    json!({"e0":e0,"e0h":e0h,"e1":e1,"e1h":e1h,"used":used,"m":fm,"hm":hm,"bad":bad,"padx":padx & 0x7FFF_FFFF,"padz":clamp_i(padz),"padn":clamp_i(pad_total)})
}

pub const MAX_USED_ENTRIES: usize = 30_000;

pub fn decode(img: &Image, o: &DecodeOpts) -> Value {
    let g = match Geo::parse(img) {
        Some(g) => g,
        None => return json!({"ok":false}),
    };
    let cs = g.cs();
    let geo = json!({
        "ft": g.ft, "n": clamp_i(g.n), "cs": cs, "csc": (cs as usize + o.cell - 1) / o.cell.max(1), "cell": o.cell,
        "nf": g.nfats, "mir": g.mirroring(), "act": g.active_fat(),
        "rootn": g.root_entries, "rootc": clamp_i(g.root_cluster), "bps": g.bps, "spc": g.spc, "rsvd": g.rsvd,
        "fis": g.fsinfo_sector, "bks": g.backup_sector, "media": g.media,
        // label and volume id of the boot sector (the id as two 16-bit halves: TLC integers are 32-bit signed)
        "lab": img.vec_at(if g.layout32 { 71 } else { 43 }, 11),
        "vid": [img.u16_at(if g.layout32 { 67 } else { 39 }), img.u16_at(if g.layout32 { 69 } else { 41 })],
        // extended boot signature: label, id and type string are meaningful only when it is 0x29
        "xs": img.u8_at(if g.layout32 { 66 } else { 38 }),
    });
    let status = img.u8_at(g.status_off());
    let fi = if g.layout32 {
        let o = g.fsinfo_sector * g.bps;
        let sig_ok = img.u32_at(o) == 0x4161_5252 && img.u32_at(o + 484) == 0x6141_7272 && img.u32_at(o + 508) == 0xAA55_0000;
        json!({"ok": sig_ok, "free": clamp_i(u64::from(img.u32_at(o + 488))), "next": clamp_i(u64::from(img.u32_at(o + 492)))})
    } else {
        json!({"ok": false, "free": -1, "next": -1})
    };
    let mut fats = Vec::new();
    if g.spf * g.bps < (1u64 << 40) {
        for k in 0..g.nfats {
            fats.push(fat_json(&g, img, k));
        }
    }
    // No generated history comes near this many clusters in use: a table this dense is the trace of stray writes into the table area.
    // It is not projected (the cost per event would be unbounded); the specification reports the image as undecodable.
    if fats.iter().any(|f| f["used"].as_array().map_or(0, Vec::len) > MAX_USED_ENTRIES) {
        return json!({"ok": false, "why": "dense"});
    }
    // directories, breadth first
    let mut dirs: Vec<Value> = Vec::new();
    let mut seen_dirs: HashSet<u64> = HashSet::new();
    // queue entries: (dir id (first cluster; 0 = fixed root), parent id, parent slot index)
    let mut queue: Vec<(u64, i64, i64)> = Vec::new();
    let root_id = if g.ft == 32 { g.root_cluster } else { 0 };
    queue.push((root_id, -1, 0));
    seen_dirs.insert(root_id);
    let mut qi = 0;
    let max_dirs = 4096;
    while qi < queue.len() && dirs.len() < max_dirs {
        let (id, par, ps) = queue[qi];
        qi += 1;
        let is_fixed_root = id == 0 && g.ft != 32;
        // collect the byte ranges of the directory
        let (chain, cap_slots): (Vec<u64>, u64) = if is_fixed_root {
            (Vec::new(), g.root_entries)
        } else {
            let ch = g.chain(img, id, 1 << 16);
            let n = ch.len() as u64;
            (ch, n * cs / 32)
        };
        let slot_off = |i: u64| -> u64 {
            if is_fixed_root {
                g.root_off() + i * 32
            } else {
                let per = cs / 32;
                g.clu_off(chain[(i / per) as usize]) + (i % per) * 32
            }
        };
        let mut slots: Vec<Value> = Vec::new();
        let mut end_at: Option<u64> = None;
        let mut i = 0u64;
        while i < cap_slots {
            let s = img.vec_at(slot_off(i), 32);
            if s[0] == 0 {
                end_at = Some(i);
                break;
            }
            let mut sj = slot_json(&s, g.ft);
            // recurse / read file content
            if sj["t"] == "S" {
                let at = s[11];
                let is_vol = at & 0x08 != 0;
                let is_dir = at & 0x10 != 0;
                let fc = sj["cl"].as_i64().unwrap_or(0);
                let dot = s[0] == b'.';
                if !is_vol && is_dir && !dot && fc >= 2 && g.valid_cluster(fc as u64) && seen_dirs.insert(fc as u64) {
                    queue.push((fc as u64, id as i64, (i + 1) as i64));
                }
                if o.with_files && !is_vol && !is_dir {
                    let sz = sj["sz"].as_i64().unwrap_or(0).max(0) as u64;
                    let mut data: Vec<u8> = Vec::new();
                    if fc >= 2 && sz > 0 {
                        let want = sz.min(o.max_file_bytes);
                        let ch = g.chain(img, fc as u64, ((want + cs - 1) / cs) as usize);
                        for c in ch {
                            let left = want - data.len() as u64;
                            if left == 0 {
                                break;
                            }
                            let n = left.min(cs) as usize;
                            data.extend_from_slice(&img.vec_at(g.clu_off(c), n));
                        }
                    }
                    sj["fd"] = json!(cells(&data, o.cell));
                }
            }
            slots.push(sj);
            i += 1;
        }
        // everything from the END marker to the end of the directory must be zero
        let mut tz = true;
        if let Some(e) = end_at {
            let mut j = e;
            while j < cap_slots {
                // compare block-wise for speed
                let s = img.vec_at(slot_off(j), 32);
                if s.iter().any(|b| *b != 0) {
                    tz = false;
                    break;
                }
                j += 1;
            }
        }
        dirs.push(json!({"id": clamp_i(id), "par": par, "ps": ps, "ch": chain, "cap": cap_slots,
                         "end": end_at.map(|e| e as i64).unwrap_or(-1), "tz": tz, "sl": slots}));
    }
    json!({"ok": true, "g": geo, "st": status, "fi": fi, "fats": fats, "dirs": dirs})
}

/// Map one device access (offset, length) to region segments, in u64 arithmetic.
pub fn regions(g: &Geo, off: u64, len: u64) -> Vec<Value> {
    let mut out = Vec::new();
    let mut o = off;
    let end = off + len;
    let vol_end = g.vol_bytes();
    let fat0 = g.rsvd * g.bps;
    let fat_len = g.spf * g.bps;
    let root_off = g.root_off();
    let root_end = root_off + g.root_dir_sectors * g.bps;
    let data_off = g.first_data_sector * g.bps;
    let data_end = g.data_end();
    while o < end {
        let seg_end;
        if o >= vol_end {
            out.push(json!({"r":"beyond"}));
            break;
        } else if o < g.bps {
            seg_end = end.min(g.bps);
            out.push(json!({"r":"boot","o":o,"l":seg_end - o}));
        } else if o < fat0 {
            let s = o / g.bps;
            seg_end = end.min((s + 1) * g.bps);
            if g.layout32 && s == g.fsinfo_sector {
                out.push(json!({"r":"fsinfo","o":o - s * g.bps,"l":seg_end - o}));
            } else {
                out.push(json!({"r":"rsvd","s":s}));
            }
        } else if o < root_off {
            let k = (o - fat0) / fat_len;
            let base = fat0 + k * fat_len;
            seg_end = end.min(base + fat_len);
            let (lo, hi) = match g.ft {
                12 => ((o - base) * 2 / 3, ((seg_end - 1 - base) * 2 + 1) / 3),
                16 => ((o - base) / 2, (seg_end - 1 - base) / 2),
                _ => ((o - base) / 4, (seg_end - 1 - base) / 4),
            };
            out.push(json!({"r":"fat","k":k,"lo":clamp_i(lo),"hi":clamp_i(hi)}));
        } else if o < root_end {
            seg_end = end.min(root_end);
            out.push(json!({"r":"root","lo":(o - root_off) / 32 + 1,"hi":(seg_end - 1 - root_off) / 32 + 1}));
        } else if o < data_end {
            let c = (o - data_off) / g.cs() + 2;
            let cbase = g.clu_off(c);
            seg_end = end.min(cbase + g.cs());
            out.push(json!({"r":"clu","c":clamp_i(c),"o":o - cbase,"l":seg_end - o}));
        } else {
            seg_end = end.min(vol_end);
            out.push(json!({"r":"slack"}));
        }
        o = seg_end;
    }
    out
}
