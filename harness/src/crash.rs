//! Crash-image enumeration for C14.
//!
//! The device kept the ordered log of every write it received.  For every prefix p of that log
//! (from the first successful flush/close on) the image "initial bytes + writes[0..p]" is what a
//! write-back cache that honours flush leaves after a power cut at that point.  Each image is
//! mounted afresh and listed with contents; TLC decides which flushed files must be found there.
use serde_json::{json, Map, Value};

use crate::dev::{SimDevice, WlogRec};
use crate::exec::{make_volume, remount_view, Cfg, Out};

pub fn enumerate(prog: &Value, dev: &SimDevice, cfg: &Cfg, out: &mut Out) {
    let vol = cfg.j.get("vol").cloned().unwrap_or(json!({}));
    let Ok(mut img) = make_volume(&vol) else { return };
    let wlog: Vec<WlogRec> = dev.0.borrow().wlog.clone();
    let from = out.first_flush.unwrap_or(wlog.len() as u64) as usize;
    let stride = prog["crash"].get("stride").and_then(Value::as_u64).unwrap_or(1).max(1) as usize;
    let mut last = String::new();
    for p in 0..=wlog.len() {
        if p > 0 {
            if let WlogRec::Write { off, data } = &wlog[p - 1] {
                img.write_at(*off, data);
            }
        }
        if p < from || (p - from) % stride != 0 && p != wlog.len() {
            continue;
        }
        let rv = remount_view(&img, cfg);
        let s = rv.to_string();
        let mut ev = Map::new();
        ev.insert("op".into(), json!("crash"));
        ev.insert("p".into(), json!(p));
        ev.insert("r".into(), json!({"k":"ok"}));
        if s != last {
            ev.insert("rv".into(), rv);
            last = s;
        }
        out.emit(ev);
    }
}
