//! Crash-image enumeration for C14.  Filled in later.
use serde_json::Value;

use crate::dev::SimDevice;
use crate::exec::{Cfg, Out};

pub fn enumerate(_prog: &Value, _dev: &SimDevice, _cfg: &Cfg, _out: &mut Out) {}
